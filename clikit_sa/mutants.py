"""Mutants and refactor twins used by the checker self-test (thorough tier).

Each entry edits the *current* source in memory.  ``expect`` is the rule that
must raise a new finding.  Whether the mutant also keeps the pinned test suite
green was measured once on scratch copies; see DESIGN.md section 9.
"""
from .selftest import M

ED = "src/clikit/api/event/event_dispatcher.py"

MUTANTS = {}

MUTANTS["C12"] = [
    M("F25-config-event-no-super", "src/clikit/api/event/config_event.py", "        super(ConfigEvent, self).__init__()\n\n", "", expect="C12-R10"),
    M("pre-handle-event-no-super", "src/clikit/api/event/pre_handle_event.py", "        super(PreHandleEvent, self).__init__()\n", "        pass\n", expect="C12-R10"),
    M("no-invalidation", ED,
      "        if event_name in self._sorted:\n            del self._sorted[event_name]\n", "", expect="C12-R1"),
    M("insert-front", ED, "self._listeners[event_name][priority].append(listener)",
      "self._listeners[event_name][priority].insert(0, listener)", expect="C12-R2"),
    M("ascending-sort", ED, "key=lambda t: -t[0]", "key=lambda t: t[0]", expect="C12-R2"),
    M("test-after-call", ED,
      "            if event.is_propagation_stopped():\n                break\n\n            listener(event, event_name, self)\n",
      "            listener(event, event_name, self)\n\n            if event.is_propagation_stopped():\n                break\n",
      expect="C12-R3"),
    M("no-reset", ED, "        self._sorted[event_name] = []\n\n", "        self._sorted.setdefault(event_name, [])\n\n", expect="C12-R4"),
    M("foreign-key", ED, "            return self._sorted[event_name]\n", "            return self._sorted[next(iter(self._sorted))]\n", expect="C12-R5"),
    M("reversed-dispatch", ED, "        for listener in listeners:\n            if event.is_propagation_stopped",
      "        for listener in reversed(listeners):\n            if event.is_propagation_stopped", expect="C12-R2"),
    M("cache-miss-not-rebuilt", ED,
      "            if event_name not in self._sorted:\n                self._sort_listeners(event_name)\n\n            return self._sorted[event_name]",
      "            if event_name not in self._sorted:\n                pass\n\n            return self._sorted[event_name]", expect="C12-R6"),
    M("twin-pop-invalidation", ED,
      "        if event_name in self._sorted:\n            del self._sorted[event_name]\n",
      "        self._sorted.pop(event_name, None)\n", twin=True),
    M("twin-reverse-true", ED, "key=lambda t: -t[0]", "key=lambda t: t[0], reverse=True", twin=True),
    M("twin-continue-form", ED,
      "            if event.is_propagation_stopped():\n                break\n\n            listener(event, event_name, self)\n",
      "            if not event.is_propagation_stopped():\n                listener(event, event_name, self)\n            else:\n                break\n",
      twin=True),
    M("twin-local-list", ED,
      "        self._sorted[event_name] = []\n\n        for priority, listeners in sorted(\n            self._listeners[event_name].items(), key=lambda t: -t[0]\n        ):\n            for listener in listeners:\n                self._sorted[event_name].append(listener)\n",
      "        result = []\n\n        for priority, listeners in sorted(\n            self._listeners[event_name].items(), key=lambda t: -t[0]\n        ):\n            for listener in listeners:\n                result.append(listener)\n\n        self._sorted[event_name] = result\n",
      twin=True),
]

OUT = "src/clikit/api/io/output.py"
IOF = "src/clikit/api/io/io.py"
SEC = "src/clikit/api/io/section_output.py"

MUTANTS["C10"] = [
    M("ungated-write-raw", OUT,
      "        if self._may_write(flags):\n            self._stream.write(to_str(string))\n",
      "        self._stream.write(to_str(string))\n", expect="C10-R1"),
    M("gate-with-none", OUT,
      "        if self._may_write(flags):\n            self._stream.write(to_str(string.rstrip",
      "        if self._may_write(None):\n            self._stream.write(to_str(string.rstrip", expect="C10-R1"),
    M("quiet-test-removed", OUT, "        if self._quiet:\n            return False\n\n", "", expect="C10-R3"),
    M("debug-first", OUT,
      "        if flags & VERBOSE:\n            return self._verbosity >= VERBOSE\n\n        if flags & VERY_VERBOSE:\n            return self._verbosity >= VERY_VERBOSE\n\n        if flags & DEBUG:\n            return self._verbosity >= DEBUG\n",
      "        if flags & DEBUG:\n            return self._verbosity >= DEBUG\n\n        if flags & VERY_VERBOSE:\n            return self._verbosity >= VERY_VERBOSE\n\n        if flags & VERBOSE:\n            return self._verbosity >= VERBOSE\n",
      expect="C10-R3"),
    M("ge-to-gt", OUT, "        if flags & VERY_VERBOSE:\n            return self._verbosity >= VERY_VERBOSE", "        if flags & VERY_VERBOSE:\n            return self._verbosity > VERY_VERBOSE", expect="C10-R3"),
    M("wrong-level", OUT, "        if flags & DEBUG:\n            return self._verbosity >= DEBUG", "        if flags & DEBUG:\n            return self._verbosity >= VERY_VERBOSE", expect="C10-R3"),
    M("io-error-drops-flags", IOF, "self._error_output.write(string, flags=flags)", "self._error_output.write(string)", expect="C10-R2"),
    M("write-line-drops-flags", OUT, "self.write(string, flags=flags, new_line=True)", "self.write(string, new_line=True)", expect="C10-R2"),
    M("f8-regression", SEC, "        if not self._may_write(flags):\n            return\n\n        erased_content", "        erased_content", expect="C10-R2"),
    M("section-plain-drops-flags", SEC, "                string, flags=flags, new_line=new_line, with_indent=with_indent\n", "                string, new_line=new_line, with_indent=with_indent\n", expect="C10-R2"),
    M("stream-write-in-ui", "src/clikit/ui/components/empty_line.py", '        io.write("\\n")', '        io.output.stream.write("\\n")', expect="C10-R1"),
    M("quiet-after-levels", OUT,
      "        if self._quiet:\n            return False\n\n        if flags & VERBOSE:\n            return self._verbosity >= VERBOSE\n",
      "        if flags & VERBOSE:\n            return self._verbosity >= VERBOSE\n\n        if self._quiet:\n            return False\n",
      expect="C10-R3"),
    M("twin-early-return-gate", OUT,
      "        if self._may_write(flags):\n            self._stream.write(to_str(string))\n",
      "        if not self._may_write(flags):\n            return\n\n        self._stream.write(to_str(string))\n", twin=True),
    M("twin-helper-emit", OUT,
      "        if self._may_write(flags):\n            self._stream.write(to_str(string.rstrip(\"\\n\") + \"\\n\"))\n",
      "        self.write_raw(string.rstrip(\"\\n\") + \"\\n\", flags)\n", twin=True),
    M("twin-le-form", OUT, "        if flags & VERBOSE:\n            return self._verbosity >= VERBOSE", "        if flags & VERBOSE:\n            return VERBOSE <= self._verbosity", twin=True),
]

DAP = "src/clikit/args/default_args_parser.py"
AVA = "src/clikit/args/argv_args.py"
HRS = "src/clikit/resolver/help_resolver.py"

MUTANTS["C05"] = [
    M("options-reset-dropped", DAP, "        self._arguments = OrderedDict()\n        self._options = OrderedDict()\n\n        arguments = OrderedDict()",
      "        self._arguments = OrderedDict()\n\n        arguments = OrderedDict()", expect="C05-R1"),
    M("arguments-reset-dropped", DAP, "        self._arguments = OrderedDict()\n        self._options = OrderedDict()\n\n        arguments = OrderedDict()",
      "        self._options = OrderedDict()\n\n        arguments = OrderedDict()", expect="C05-R1"),
    M("reset-after-parse", DAP,
      "        self._arguments = OrderedDict()\n        self._options = OrderedDict()\n\n        arguments = OrderedDict()",
      "        self._arguments = OrderedDict()\n\n        arguments = OrderedDict()", expect="C05-R1"),
    M("reset-only-when-strict", DAP, "        self._options = OrderedDict()\n\n        arguments = OrderedDict()",
      "        if not lenient:\n            self._options = OrderedDict()\n\n        arguments = OrderedDict()", expect="C05-R1"),
    M("tokens-not-copied", DAP, "tokens = raw_args.tokens[:]", "tokens = raw_args.tokens", expect="C05-R2"),
    M("argv-pop-before-copy", AVA, "        argv = argv[:]\n        self._script_name = argv.pop(0)\n", "        self._script_name = argv.pop(0)\n        argv = argv[:]\n", expect="C05-R2"),
    M("parser-extends-command-names", DAP, "        arguments.update(fmt.get_arguments())\n",
      "        arguments.update(fmt.get_arguments())\n        fmt.get_command_names(False).append(None)\n", expect="C05-R2"),
    M("f18-regression", HRS,
      "            try:\n                return super(HelpResolver, self).resolve(args, application)\n            finally:\n                tokens.insert(0, self._help_command_name)\n",
      "            return super(HelpResolver, self).resolve(args, application)\n", expect="C05-R2"),
    M("restore-only-on-success", HRS,
      "            try:\n                return super(HelpResolver, self).resolve(args, application)\n            finally:\n                tokens.insert(0, self._help_command_name)\n",
      "            resolved = super(HelpResolver, self).resolve(args, application)\n            tokens.insert(0, self._help_command_name)\n            return resolved\n", expect="C05-R2"),
    M("resolver-consumes-tokens", "src/clikit/resolver/default_resolver.py", "        tokens = args.tokens\n        named_commands",
      "        tokens = args.tokens\n        tokens.reverse()\n        named_commands", expect="C05-R2"),
    M("twin-clear-reset", DAP, "        self._options = OrderedDict()\n\n        arguments = OrderedDict()", "        self._options = {}\n\n        arguments = OrderedDict()", twin=True),
    M("twin-list-copy", DAP, "tokens = raw_args.tokens[:]", "tokens = list(raw_args.tokens)", twin=True),
    M("twin-reset-helper-order", DAP, "        self._arguments = OrderedDict()\n        self._options = OrderedDict()\n", "        self._options = OrderedDict()\n        self._arguments = OrderedDict()\n", twin=True),
]

TBL = "src/clikit/ui/components/table.py"
TST = "src/clikit/ui/style/table_style.py"
XTR = "src/clikit/ui/components/exception_trace.py"

MUTANTS["C14"] = [
    M("render-pops-own-rows", TBL, "        wrapper = self._get_cell_wrapper(\n", "        self._rows.pop()\n        wrapper = self._get_cell_wrapper(\n", expect="C14-R1"),
    M("draw-own-rows", TBL, "            wrapper.wrapped_rows,\n", "            self._rows,\n", expect="C14-R1"),
    M("header-inserted-into-rows", TBL, "        for row in self._rows:\n            for cell in row:\n                wrapper.add_cell(cell)\n",
      "        rows = self._rows\n        rows.insert(0, self._header_row)\n        for row in rows:\n            for cell in row:\n                wrapper.add_cell(cell)\n", expect="C14-R1"),
    M("cells-stripped-in-place", TBL, "        for row in self._rows:\n            for cell in row:\n                wrapper.add_cell(cell)\n",
      "        for row in self._rows:\n            for i, cell in enumerate(row):\n                row[i] = cell.rstrip()\n                wrapper.add_cell(row[i])\n", expect="C14-R1"),
    M("twin-copy-rows", TBL, "        for row in self._rows:\n            for cell in row:\n", "        for row in list(self._rows):\n            for cell in list(row):\n", twin=True),
]

MUTANTS["C17"] = [
    M("f13-regression", TST, "style.border_style = copy(BorderStyle.none())\n        style.border_style.line_hc_char = \"=\"",
      "style.border_style = BorderStyle.none()\n        style.border_style.line_hc_char = \"=\"", expect="C17-R1"),
    M("ascii-shares-cache", TST, "style.border_style = copy(BorderStyle.ascii())", "style.border_style = BorderStyle.ascii()", expect="C17-R1"),
    M("f14-regression", HRS,
      "            return super(HelpResolver, self).create_resolved_command(result)\n        finally:\n            if not was_lenient:\n                config.disable_lenient_args_parsing()\n",
      "            resolved = super(HelpResolver, self).create_resolved_command(result)\n        finally:\n            pass\n        if not was_lenient:\n            config.disable_lenient_args_parsing()\n        return resolved\n",
      expect="C17-R2"),
    M("never-disabled", HRS, "            if not was_lenient:\n                config.disable_lenient_args_parsing()\n", "            pass\n", expect="C17-R2"),
    M("f16-regression", XTR, "cache_key = (frame, 2, 2, io.supports_utf8())", "cache_key = (frame, 2, 2)", expect="C17-R4"),
    M("f18-regression", HRS,
      "            try:\n                return super(HelpResolver, self).resolve(args, application)\n            finally:\n                tokens.insert(0, self._help_command_name)\n",
      "            return super(HelpResolver, self).resolve(args, application)\n", expect="C17-R3"),
    M("class-level-list-appended", "src/clikit/ui/components/paragraph.py", "    def __init__(self, text):  # type: (str) -> None\n        self._text = text\n",
      "    _seen = []\n\n    def __init__(self, text):  # type: (str) -> None\n        self._text = text\n        self._seen.append(text)\n", expect="C17-R6"),
    M("render-consumes-text", "src/clikit/ui/components/paragraph.py", "        io.write(line_prefix + text.rstrip() + \"\\n\")\n",
      "        io.write(line_prefix + text.rstrip() + \"\\n\")\n        self._text = \"\"\n", expect="C17-R5"),
    M("table-render-mutates-rows", TBL, "        wrapper = self._get_cell_wrapper(\n", "        self._rows.reverse()\n        wrapper = self._get_cell_wrapper(\n", expect="C17-R5"),
    M("twin-deepcopy-border", TST, "style.border_style = copy(BorderStyle.solid())", "style.border_style = copy(copy(BorderStyle.solid()))", twin=True),
    M("twin-key-inline", XTR, "                        cache_key = (frame, 2, 2, io.supports_utf8())\n                        if cache_key not in self._FRAME_SNIPPET_CACHE:",
      "                        utf8 = io.supports_utf8()\n                        cache_key = (frame, utf8)\n                        if cache_key not in self._FRAME_SNIPPET_CACHE:", twin=True),
]

CAP = "src/clikit/console_application.py"
CMD = "src/clikit/api/command/command.py"

MUTANTS["C04"] = [
    M("clamp-removed", CMD, "return min(max(int(status_code), 1), 255)", "return int(status_code)", expect="C04-R1"),
    M("clamp-lower-bound-0", CMD, "return min(max(int(status_code), 1), 255)", "return min(max(int(status_code), 0), 255)", expect="C04-R1"),
    M("falsy-test-removed", CMD, "        if not status_code:\n            return 0\n\n", "", expect="C04-R1"),
    M("interrupt-status-0", CMD, "                raise\n\n            status_code = 1\n", "                raise\n\n            status_code = 0\n", expect="C04-R1"),
    M("unclamped-exception-code", CAP, "return min(max(e.code, 1), 255)", "return e.code", expect="C04-R1"),
    M("kbd-interrupt-zero", CAP, "        except KeyboardInterrupt:\n            status_code = 1\n", "        except KeyboardInterrupt:\n            status_code = 0\n", expect="C04-R1"),
    M("handler-narrowed", CAP, "        except Exception as e:\n            if not self._config.is_exception_caught():\n                raise\n\n            trace = ExceptionTrace(\n                e,\n                solution",
      "        except CliKitException as e:\n            if not self._config.is_exception_caught():\n                raise\n\n            trace = ExceptionTrace(\n                e,\n                solution", expect="C04-R2"),
    M("resolve-before-try", CAP,
      "        io = self._preliminary_io\n        try:\n            if args is None:\n                args = ArgvArgs()\n",
      "        io = self._preliminary_io\n        if args is None:\n            args = ArgvArgs()\n        early = self.resolve_command(args)\n        try:\n", expect="C04-R2"),
    M("always-reraise", CAP, "            if not self._config.is_exception_caught():\n                raise\n\n            trace = ExceptionTrace(\n                e,\n                solution",
      "            if self._config.is_debug():\n                raise\n\n            trace = ExceptionTrace(\n                e,\n                solution", expect="C04-R2"),
    M("handler-even-when-handled", CMD, "            if event.is_handled():\n                return event.status_code\n", "            if event.is_handled():\n                pass\n", expect="C04-R3"),
    M("handler-called-twice", CMD, "        return getattr(handler, handler_method)(args, io, self)\n",
      "        getattr(handler, handler_method)(args, io, self)\n\n        return getattr(handler, handler_method)(args, io, self)\n", expect="C04-R3"),
    M("args-of-other-resolution", CAP, "            parsed_args = resolved_command.args\n", "            parsed_args = self.resolve_command(args).args\n", expect="C04-R5"),
    M("new-raw-message-write", CAP, "            status_code = self.exception_to_exit_code(e)\n", "            io.error_line(str(e))\n            status_code = self.exception_to_exit_code(e)\n", expect="C04-R4"),
    M("twin-status-helper", CMD, "        # Anything else is normalized to a valid error status code\n        return min(max(int(status_code), 1), 255)\n",
      "        # Anything else is normalized to a valid error status code\n        code = int(status_code)\n        return max(1, min(code, 255))\n", twin=True),
    M("twin-if-else-falsy", CMD, "        if not status_code:\n            return 0\n\n", "        if status_code:\n            pass\n        else:\n            return 0\n\n", twin=True),
]

MUTANTS["C20"] = [
    M("F26-no-tokenizer-fallback", "src/clikit/ui/components/exception_trace.py", "        except (tokenize.TokenError, SyntaxError):\n", "        except ZeroDivisionError:\n", expect="C20-R9"),
    M("ignore-filter-at-debug", XTR, "                and re.match(self._ignore, frame.filename)\n                and not io.is_debug()\n", "                and re.match(self._ignore, frame.filename)\n", expect="C20-R2"),
    M("marker-off-by-one", XTR, "                if mark_line == i + 1:\n                    snippet = marker", "                if mark_line == i:\n                    snippet = marker", expect="C20-R3"),
    M("numbers-from-zero", XTR, 'line_number = "{:>{}}".format(i + 1, max_line_length)', 'line_number = "{:>{}}".format(i, max_line_length)', expect="C20-R3"),
    M("new-tainted-write", XTR, '        io.write_line("")\n        exception_message = io.remove_format',
      '        io.write_line("<comment>{}</comment>".format(inspector.exception_message))\n        exception_message = io.remove_format', expect="C20-R1"),
    M("message-not-written", XTR, '        self._render_line(io, "<b>{}</b>".format(exception_message))\n', "", expect="C20-R4"),
    M("name-not-written", XTR, '        self._render_line(\n            io, "<error>{}</error>".format(inspector.exception_name), True\n        )\n', "", expect="C20-R4"),
    M("f21-regression", XTR, "                # End of source\n                if current_type is None:\n                    current_type = self.TOKEN_DEFAULT\n\n", "                # End of source\n", expect="C20-R5"),
    M("twin-render-line-helper", XTR, '        self._render_line(io, "<b>{}</b>".format(exception_message))\n',
      '        text = "<b>{}</b>".format(exception_message)\n        self._render_line(io, text)\n', twin=True),
    M("twin-enumerate-start-1", XTR, "        for i, line in enumerate(lines):\n            if mark_line is not None:\n                if mark_line == i + 1:",
      "        for i, line in enumerate(lines):\n            if mark_line is not None:\n                if i + 1 == mark_line:", twin=True),
]

DRS = "src/clikit/resolver/default_resolver.py"
CCL = "src/clikit/api/command/command_collection.py"

MUTANTS["C03"] = [
    M("f20-regression", DRS, "        while token is not None:\n            # \"--\" stops argument parsing", "        while token:\n            # \"--\" stops argument parsing", expect="C03-R7"),
    M("alias-not-in-contains", CCL, "            or name in self._short_name_index\n            or name in self._alias_index\n", "            or name in self._short_name_index\n", expect="C03-R1"),
    M("alias-not-recorded", CCL, "        for alias in command.aliases:\n            self._alias_index[alias] = name\n\n", "", expect="C03-R1"),
    M("alias-not-in-get", CCL, "        if name in self._alias_index:\n            return self._commands[self._alias_index[name]]\n\n", "", expect="C03-R1"),
    M("break-to-continue", DRS, "            if name not in named_commands:\n                break\n", "            if name not in named_commands:\n                continue\n", expect="C03-R3"),
    M("option-test-removed", DRS, "            if token[:1] and token[0] == \"-\":\n                break\n\n            arguments_to_test.append(token)",
      "            arguments_to_test.append(token)", expect="C03-R2"),
    M("option-skipped-not-stopped", DRS, "            if token[:1] and token[0] == \"-\":\n                break\n\n            arguments_to_test.append(token)",
      "            if token[:1] and token[0] == \"-\":\n                token = next(tokens, None)\n                continue\n\n            arguments_to_test.append(token)", expect="C03-R2"),
    M("defaults-first", DRS,
      "        if arguments_to_test:\n            raise CannotResolveCommandException.name_not_found(\n                arguments_to_test[0], named_commands\n            )\n\n        # If no arguments were passed, run the application's default command.\n        result = self.process_default_commands(args, application.default_commands)\n        if result:\n            return self.create_resolved_command(result)\n",
      "        result = self.process_default_commands(args, application.default_commands)\n        if result:\n            return self.create_resolved_command(result)\n\n        if arguments_to_test:\n            raise CannotResolveCommandException.name_not_found(\n                arguments_to_test[0], named_commands\n            )\n",
      expect="C03-R4"),
    M("descent-through-all-subcommands", DRS, "named_commands = current_command.named_sub_commands", "named_commands = current_command.sub_commands", expect="C03-R3"),
    M("anonymous-added-to-named", CAP, "        if not config.is_anonymous():\n            self._named_commands.add(command)\n", "        self._named_commands.add(command)\n", expect="C03-R5"),
    M("disabled-sub-command-registered", CMD, "        if not config.is_enabled():\n            return\n\n        command = self.__class__(config, self._application, self)", "        command = self.__class__(config, self._application, self)", expect="C03-R5"),
    M("twin-startswith", DRS, "            if token[:1] and token[0] == \"-\":\n                break\n\n            arguments_to_test.append(token)",
      "            if token.startswith(\"-\"):\n                break\n\n            arguments_to_test.append(token)", twin=True),
    M("twin-in-form", DRS, "            if name not in named_commands:\n                break\n\n            next_command = named_commands.get(name)\n",
      "            if name in named_commands:\n                next_command = named_commands.get(name)\n            else:\n                break\n", twin=True),
]

DCF = "src/clikit/config/default_application_config.py"

MUTANTS["C09"] = [
    M("has-token-quiet", DCF, 'args.has_option_token("--quiet") or args.has_option_token("-q")', 'args.has_token("--quiet") or args.has_option_token("-q")', expect="C09-R1"),
    M("n-spelling-dropped", DCF, 'args.has_option_token("--no-interaction") or args.has_option_token("-n")', 'args.has_option_token("--no-interaction")', expect="C09-R2"),
    M("levels-permuted", DCF, '        elif args.has_option_token("-vv"):\n            io.set_verbosity(VERY_VERBOSE)\n        elif args.has_option_token("-v"):\n            io.set_verbosity(VERBOSE)',
      '        elif args.has_option_token("-vv"):\n            io.set_verbosity(VERBOSE)\n        elif args.has_option_token("-v"):\n            io.set_verbosity(VERY_VERBOSE)', expect="C09-R3"),
    M("handled-not-set", DCF, "            event.handled(True)\n", "", expect="C09-R5"),
    M("stop-propagation-removed", DCF, "            event.stop_propagation()\n", "", expect="C09-R4"),
    M("resolved-command-not-set", DCF, "            event.set_resolved_command(ResolvedCommand(command, parsed_args))\n", "", expect="C09-R4"),
    M("help-only-long", DCF, 'if args.has_option_token("-h") or args.has_option_token("--help"):', 'if args.has_option_token("--help"):', expect="C09-R"),
    M("quiet-one-output", IOF, "        self._output.set_quiet(quiet)\n        self._error_output.set_quiet(quiet)\n", "        self._output.set_quiet(quiet)\n", expect="C09-R6"),
    M("no-ansi-only-stdout", DCF, "            output_formatter = error_formatter = PlainFormatter(style_set)\n        elif",
      "            output_formatter = PlainFormatter(style_set)\n            error_formatter = AnsiFormatter(style_set)\n        elif", expect="C09-R3"),
    M("ansi-not-forced", DCF, "output_formatter = error_formatter = AnsiFormatter(style_set, True)", "output_formatter = error_formatter = AnsiFormatter(style_set)", expect="C09-R3"),
    M("resolver-runs-anyway", CAP, "            if resolved_command:\n                return resolved_command\n", "", expect="C09-R4"),
    M("version-as-pre-resolve", DCF, "self.add_event_listener(PRE_HANDLE, self.print_version)", "self.add_event_listener(PRE_RESOLVE, self.print_version)", expect="C09-R5"),
    M("interactive-flag-ignored", "src/clikit/api/io/input.py", "        if not self._interactive:\n            return default\n\n        return self._stream.read_line(length=length)",
      "        return self._stream.read_line(length=length)", expect="C09-R6"),
    M("twin-quiet-order", DCF, 'args.has_option_token("--quiet") or args.has_option_token("-q")', 'args.has_option_token("-q") or args.has_option_token("--quiet")', twin=True),
    M("twin-verbosity-if-chain", DCF, '        elif args.has_option_token("-vv"):\n            io.set_verbosity(VERY_VERBOSE)\n        elif args.has_option_token("-v"):\n            io.set_verbosity(VERBOSE)',
      '        elif args.has_option_token("-v"):\n            io.set_verbosity(VERBOSE)\n        elif args.has_option_token("-vv"):\n            io.set_verbosity(VERY_VERBOSE)', twin=True),
]

TKP = "src/clikit/args/token_parser.py"
SAR = "src/clikit/args/string_args.py"

MUTANTS["C08"] = [
    M("f7-regression", TKP, "        elif self._next_ is None:\n            # A trailing backslash is a literal backslash\n            sequence = \"\\\\\"\n", "", expect="C08-R1"),
    M("no-advance-plain-char", TKP, "            else:\n                token += self._current\n                self._next()\n\n        return token", "            else:\n                token += self._current\n\n        return token", expect="C08-R2"),
    M("no-advance-space", TKP, "            if self._current.isspace():\n                # Skip spaces\n                self._next()\n\n                continue", "            if self._current.isspace():\n                # Skip spaces\n                continue", expect="C08-R2"),
    M("use-after-advance", TKP, "        # Skip first delimiter\n        self._next()\n        while self._is_valid():", "        # Skip first delimiter\n        self._next()\n        string += self._current\n        while self._is_valid():", expect="C08-R1"),
    M("option-tokens-all", SAR, 'itertools.takewhile(lambda arg: arg != "--", self.tokens)', 'itertools.takewhile(lambda arg: True, self.tokens)', expect="C08-R3"),
    M("has-option-token-all-tokens", AVA, "        return token in self._option_tokens", "        return token in self._tokens", expect="C08-R3"),
    M("next-does-not-increment", TKP, "        self._cursor += 1\n        self._current = self._next_", "        self._current = self._next_", expect="C08-R2"),
    M("twin-is-not-none-loop", TKP, "        while self._is_valid():\n            if self._current.isspace():\n                # Skip spaces", "        while self._current is not None:\n            if self._current.isspace():\n                # Skip spaces", twin=True),
    M("twin-else-continue", TKP, "                self._next()\n\n                continue\n\n            if self._is_valid():\n                tokens.append(self._parse_token())",
      "                self._next()\n            else:\n                tokens.append(self._parse_token())", twin=True),
]

ARG = "src/clikit/api/args/args.py"

MUTANTS["C01"] = [
    M("f2-regression", ARG, "            return self._arguments[argument.name]\n", "            return self._arguments[name]\n", expect="C01-R1"),
    M("f17-regression", ARG, "        return self._fmt.get_option(name).long_name in self._options\n", "        return name in self._options\n", expect="C01-R1"),
    M("option-raw-key", ARG, "        if option.long_name in self._options:\n            return self._options[option.long_name]\n", "        if name in self._options:\n            return self._options[name]\n", expect="C01-R1"),
    M("set-option-unparsed", ARG, "        elif option.accepts_value():\n            value = option.parse(value)\n", "        elif option.accepts_value():\n            pass\n", expect="C01-R2"),
    M("set-argument-unparsed-multi", ARG, "            for i, v in enumerate(value):\n                value[i] = argument.parse(v)\n        else:", "            pass\n        else:", expect="C01-R2"),
    M("separator-flag-dropped-long", DAP, '            elif parse_options and token.find("--") == 0:', '            elif token.find("--") == 0:', expect="C01-R3"),
    M("separator-flag-reset", DAP, "                self._parse_argument(token, fmt, lenient)\n\n    def _insert_missing", "                self._parse_argument(token, fmt, lenient)\n                parse_options = True\n\n    def _insert_missing", expect="C01-R3"),
    M("multi-value-prepend", DAP, "            self._options[name].append(value)", "            self._options[name].insert(0, value)", expect="C01-R4"),
    M("arguments-sorted", DAP, "        actual_values = self._flatten(self._arguments.values())", "        actual_values = sorted(self._flatten(self._arguments.values()))", expect="C01-R4"),
    M("options-default-differs", ARG, "                    default = False\n                    if option.accepts_value():\n                        default = option.default\n", "                    default = None\n                    if option.accepts_value():\n                        default = option.default\n", expect="C01-R5"),
    M("pushback-at-end", DAP, "                if value and value.startswith(\"-\"):\n                    tokens.insert(0, value)\n                    value = None\n\n                self._add_long_option(name, value, tokens, fmt, lenient)",
      "                if value and value.startswith(\"-\"):\n                    tokens.append(value)\n                    value = None\n\n                self._add_long_option(name, value, tokens, fmt, lenient)", expect="C01-R4"),
    M("twin-key-local", ARG, "        if option.long_name in self._options:\n            return self._options[option.long_name]\n", "        key = option.long_name\n        if key in self._options:\n            return self._options[key]\n", twin=True),
    M("twin-key-helper", ARG, "        if argument.name in self._arguments:\n            return self._arguments[argument.name]\n", "        if self._fmt.get_argument(name).name in self._arguments:\n            return self._arguments[self._fmt.get_argument(name).name]\n", twin=True),
]

AFM = "src/clikit/api/args/format/args_format.py"
AFB = "src/clikit/api/args/format/args_format_builder.py"
USR = "src/clikit/utils/string.py"

MUTANTS["C02"] = [
    M("handler-narrowed", DAP, "        except (CannotParseArgsException, NoSuchOptionException):\n            if not lenient:\n                raise\n",
      "        except CannotParseArgsException:\n            if not lenient:\n                raise\n", expect="C02-R2"),
    M("lenient-picks-default", DAP, "                value = option.default if option.is_value_optional() else True",
      "                value = option.default if (option.is_value_optional() or lenient) else True", expect="C02-R1"),
    M("lenient-skips-silently", DAP, "        if missing_arguments and not lenient:\n            raise CannotParseArgsException(",
      "        if missing_arguments and not lenient:\n            return Args(fmt, args)\n        if False:\n            raise CannotParseArgsException(", expect="C02-R1"),
    M("raises-runtime-error", DAP, "                raise CannotParseArgsException.option_requires_value(name)", "                raise RuntimeError(\"option requires a value\")", expect="C02-R3"),
    M("unknown-option-wrong-class", DAP, "        if not fmt.has_option(name):\n            raise NoSuchOptionException(name)\n\n        option = fmt.get_option(name)\n\n        if value is False:",
      "        if not fmt.has_option(name):\n            raise CannotParseArgsException(name)\n\n        option = fmt.get_option(name)\n\n        if value is False:", expect="C02-R3"),
    M("f6-regression", USR, "        return int(value)\n    except (TypeError, ValueError):", "        return int(value)\n    except ValueError:", expect="C02-R4"),
    M("f5-regression", AFM, "            return 0 <= name < len(arguments)", "            return name < len(arguments)", expect="C02-R5"),
    M("unguarded-get-argument", DAP, "        elif fmt.has_argument(c - 1) and fmt.get_argument(c - 1).is_multi_valued():", "        elif fmt.get_argument(c - 1).is_multi_valued():", expect="C02-R2"),
    M("set-option-unguarded", DAP, "        for name, value in self._options.items():\n            if fmt.has_option(name):\n                parsed_args.set_option(name, value)\n",
      "        for name, value in self._options.items():\n            parsed_args.set_option(name, value)\n", expect="C02-R2"),
    M("converter-raises-typeerror", USR, "    raise ValueError('The value \"{}\" cannot be parsed as boolean.'.format(value))", "    raise TypeError('The value \"{}\" cannot be parsed as boolean.'.format(value))", expect="C02-R4"),
    M("twin-lenient-return-form", DAP, "        else:\n            if not lenient:\n                raise CannotParseArgsException.too_many_arguments()\n\n    def _parse_long_option",
      "        else:\n            if lenient:\n                return\n\n            raise CannotParseArgsException.too_many_arguments()\n\n    def _parse_long_option", twin=True),
    M("twin-chained-bound", AFB, "            return 0 <= name < len(arguments)", "            return name >= 0 and name < len(arguments)", twin=True),
]

MUTANTS["C06"] = [
    M("insert-before-check", AFB,
      "        if self.has_option(short_name) or self.has_command_option(short_name):\n            raise CannotAddOptionException.already_exists(short_name)\n\n        self._options[long_name] = option\n",
      "        self._options[long_name] = option\n\n        if self.has_option(short_name) or self.has_command_option(short_name):\n            raise CannotAddOptionException.already_exists(short_name)\n", expect="C06-R1"),
    M("alias-collision-loop-removed", AFB,
      "        for long_alias in long_aliases:\n            if self.has_option(long_alias) or self.has_command_option(long_alias):\n                raise CannotAddOptionException.already_exists(long_alias)\n\n", "", expect="C06-R5"),
    M("short-name-vs-command-options-unchecked", AFB,
      "        if self.has_option(short_name) or self.has_command_option(short_name):\n            raise CannotAddOptionException.already_exists(short_name)\n\n        self._options[long_name] = option\n",
      "        if self.has_option(short_name):\n            raise CannotAddOptionException.already_exists(short_name)\n\n        self._options[long_name] = option\n", expect="C06-R5"),
    M("get-option-no-base-fallthrough", AFB,
      "            return self._options_by_short_name[name]\n\n        if include_base and self._base_format:\n            return self._base_format.get_option(name)\n\n        raise NoSuchOptionException(name)\n\n    def get_options",
      "            return self._options_by_short_name[name]\n\n        raise NoSuchOptionException(name)\n\n    def get_options", expect="C06-R"),
    M("multi-valued-marker-not-recorded", AFB, "        if argument.is_multi_valued():\n            self._has_multi_valued_arg = True\n\n", "", expect="C06-R5"),
    M("required-after-optional-check-removed", AFB, "        if argument.is_required() and self.has_optional_argument():\n            raise CannotAddArgumentException.cannot_add_required_after_optional()\n\n", "", expect="C06-R5"),
    M("f3-regression", AFM, "builder = self._create_builder_for_elements(elements, base_format)", "builder = self._create_builder_for_elements(elements)", expect="C06-R2"),
    M("f4-regression", AFB, "            base_arguments = self._base_format.get_arguments()\n            base_arguments.update(arguments)\n            arguments = base_arguments\n\n        return arguments\n\n    def set_options",
      "            arguments.update(self._base_format.get_arguments())\n\n        return arguments\n\n    def set_options", expect="C06-R3"),
    M("f22-regression", AFM, "self._command_names = list(builder.get_command_names(False))", "self._command_names = builder.get_command_names(False)", expect="C06-R6"),
    M("format-has-option-ignores-short", AFM, "        if name in self._options or name in self._options_by_short_name:\n            return True\n\n        if include_base and self._base_format:\n            return self._base_format.has_option(name)",
      "        if name in self._options:\n            return True\n\n        if include_base and self._base_format:\n            return self._base_format.has_option(name)", expect="C06-R"),
    M("marker-not-mirrored", AFM, "        self._has_multi_valued_arg = builder.has_multi_valued_argument(False)\n", "", expect="C06-R3"),
    M("twin-rename-local", AFB, "        long_name = option.long_name\n        short_name = option.short_name\n\n        if self.has_option(long_name) or self.has_command_option(long_name):\n            raise CannotAddOptionException.already_exists(long_name)\n\n        if self.has_option(short_name) or self.has_command_option(short_name):\n            raise CannotAddOptionException.already_exists(short_name)\n\n        self._options[long_name] = option\n\n        if short_name:\n            self._options_by_short_name[short_name] = option",
      "        ln = option.long_name\n        sn = option.short_name\n\n        if self.has_option(ln) or self.has_command_option(ln):\n            raise CannotAddOptionException.already_exists(ln)\n\n        if self.has_option(sn) or self.has_command_option(sn):\n            raise CannotAddOptionException.already_exists(sn)\n\n        self._options[ln] = option\n\n        if sn:\n            self._options_by_short_name[sn] = option", twin=True),
]

OPT = "src/clikit/api/args/format/option.py"
AGM = "src/clikit/api/args/format/argument.py"
ABO = "src/clikit/api/args/format/abstract_option.py"
COP = "src/clikit/api/args/format/command_option.py"

MUTANTS["C07"] = [
    M("pair-dropped", OPT, "        if flags & self.OPTIONAL_VALUE and flags & self.MULTI_VALUED:\n            raise ValueError(\n                \"The option flags VALUE_OPTIONAL and MULTI_VALUED cannot be combined.\"\n            )\n\n", "", expect="C07-R2"),
    M("type-pair-dropped", AGM, "            if flags & self.FLOAT:\n                raise ValueError(\n                    \"The argument flags BOOLEAN and FLOAT cannot be combined.\"\n                )\n", "", expect="C07-R2"),
    M("float-missing-from-mask", OPT, "if not flags & (self.STRING | self.BOOLEAN | self.INTEGER | self.FLOAT):", "if not flags & (self.STRING | self.BOOLEAN | self.INTEGER):", expect="C07-R3"),
    M("no-value-not-single-bit", OPT, "    NO_VALUE = 4\n", "    NO_VALUE = 6\n", expect="C07-R1"),
    M("constant-collision", AGM, "    MULTI_VALUED = 4\n", "    MULTI_VALUED = 2\n", expect="C07-R1"),
    M("integer-to-float-converter", OPT, "        elif self._flags & self.INTEGER:\n            return parse_int(value, nullable)", "        elif self._flags & self.INTEGER:\n            return parse_float(value, nullable)", expect="C07-R5"),
    M("accepts-value-other-bit", OPT, "        return not bool(self.NO_VALUE & self._flags)", "        return not bool(self.OPTIONAL_VALUE & self._flags)", expect="C07-R4"),
    M("required-default-check-removed", AGM, "        if self.is_required():\n            raise ValueError(\"Required arguments do not accept default values.\")\n\n", "", expect="C07-R2"),
    M("elif-to-conditional", OPT, "        elif flags & self.BOOLEAN:\n            if flags & self.INTEGER:", "        elif flags & self.BOOLEAN and not flags & self.NULLABLE:\n            if flags & self.INTEGER:", expect="C07-R2"),
    M("alias-pattern-differs", COP, 'if not re.match(r"^[a-zA-Z0-9\\-]+$", alias):', 'if not re.match(r"^[a-zA-Z0-9_\\-]+$", alias):', expect="C07-R6"),
    M("nullable-not-passed", AGM, "        elif self._flags & self.FLOAT:\n            return parse_float(value, nullable)", "        elif self._flags & self.FLOAT:\n            return parse_float(value, True)", expect="C07-R5"),
    M("multi-without-required", OPT, "        if flags & self.MULTI_VALUED and not flags & self.REQUIRED_VALUE:\n            flags |= self.REQUIRED_VALUE\n\n", "", expect="C07-R3"),
    M("option-validator-not-chained", OPT, "        super(Option, self)._validate_flags(flags)\n\n        if flags & self.NO_VALUE:", "        if flags & self.NO_VALUE:", expect="C07-R2"),
    M("true-literal-missing", USR, '        if value in {"true", "1", "yes", "on"}:', '        if value in {"1", "yes", "on"}:', expect="C07-R7"),
    M("twin-if-if-chain", AGM, "        elif flags & self.INTEGER:\n            if flags & self.FLOAT:\n                raise ValueError(\n                    \"The argument flags INTEGER and FLOAT cannot be combined.\"\n                )",
      "        if flags & self.INTEGER and flags & self.FLOAT:\n            raise ValueError(\n                \"The argument flags INTEGER and FLOAT cannot be combined.\"\n            )", twin=True),
]

QST = "src/clikit/ui/components/question.py"
CHQ = "src/clikit/ui/components/choice_question.py"

MUTANTS["C18"] = [
    M("f12-regression", QST, "            answer = interviewer()\n\n            try:\n                return self._validator(answer)\n", "            try:\n                return self._validator(interviewer())\n", expect="C18-R1"),
    M("validator-returns-typed-text", CHQ, "                    if 0 <= value < len(self._values):\n                        result = self._values[value]", "                    if 0 <= value < len(self._values):\n                        result = value", expect="C18-R2"),
    M("sentinel-not-rejected", CHQ, "            if result is False:\n                raise ValueError(self._question.error_message.format(value))\n\n", "", expect="C18-R2"),
    M("prompt-before-interactive-test", QST, "        if not io.is_interactive():\n            return self.default\n\n        if not self._validator:", "        self._write_prompt(io)\n        if not io.is_interactive():\n            return self.default\n\n        if not self._validator:", expect="C18-R3"),
    M("interactive-test-removed", QST, "        if not io.is_interactive():\n            return self.default\n\n", "", expect="C18-R3"),
    M("decrement-on-both-paths", QST, "            if attempts is not None:\n                attempts -= 1\n", "            if attempts is not None:\n                attempts -= 1\n\n            if attempts:\n                attempts -= 1\n", expect="C18-R4"),
    M("no-decrement", QST, "            if attempts is not None:\n                attempts -= 1\n", "", expect="C18-R4"),
    M("error-printed-twice", QST, "            if error is not None:\n                self._write_error(io, error)\n", "            if error is not None:\n                self._write_error(io, error)\n                self._write_error(io, error)\n", expect="C18-R4"),
    M("twin-interactive-local", QST, "        if not io.is_interactive():\n            return self.default\n", "        interactive = io.is_interactive()\n        if not interactive:\n            return self.default\n", twin=True),
]

PIN = "src/clikit/ui/components/progress_indicator.py"

MUTANTS["C19"] = [
    M("join-removed", PIN, "            self._auto_running.set()\n            self._auto_thread.join()\n\n            raise", "            self._auto_running.set()\n\n            raise", expect="C19-R1"),
    M("f15-regression", PIN, "        except BaseException:\n            self._io.write_line(\"\")", "        except (Exception, KeyboardInterrupt):\n            self._io.write_line(\"\")", expect="C19-R1"),
    M("finish-does-not-join", PIN, "        if self._auto_thread is not None:\n            self._auto_running.set()\n            self._auto_thread.join()\n\n", "", expect="C19-R1"),
    M("f19-regression", PIN, "        with self._lock:\n            self._overwrite(\n                re.sub(\n                    r\"(?i){([a-z\\-_]+)(?::([^}]+))?}\",\n                    self._overwrite_callback,\n                    self._fmt,\n                )\n            )",
      "        self._overwrite(\n            re.sub(\n                r\"(?i){([a-z\\-_]+)(?::([^}]+))?}\",\n                self._overwrite_callback,\n                self._fmt,\n            )\n        )", expect="C19-R2"),
    M("finish-bypasses-lock", PIN, "        self._display()\n        self._io.write_line(\"\")\n        self._started = False", "        self._overwrite(self._message)\n        self._io.write_line(\"\")\n        self._started = False", expect="C19-R2"),
    M("redraw-before-interval-test", PIN, "        current_time = self._get_current_time_in_milliseconds()\n        if current_time < self._update_time:\n            return\n\n        self._update_time = current_time + self._interval\n        self._current += 1\n\n        self._display()",
      "        current_time = self._get_current_time_in_milliseconds()\n        self._current += 1\n        self._display()\n        if current_time < self._update_time:\n            return\n\n        self._update_time = current_time + self._interval", expect="C19-R3"),
    M("no-rearm", PIN, "        self._update_time = current_time + self._interval\n        self._current += 1\n\n        self._display()", "        self._current += 1\n\n        self._display()", expect="C19-R3"),
    M("twin-finally", PIN, "        try:\n            yield self\n        except BaseException:\n            self._io.write_line(\"\")\n\n            self._auto_running.set()\n            self._auto_thread.join()\n\n            raise\n\n        self.finish(end_message, reset_indicator=True)",
      "        ok = False\n        try:\n            yield self\n            ok = True\n        finally:\n            if not ok:\n                self._io.write_line(\"\")\n            self._auto_running.set()\n            self._auto_thread.join()\n\n        self.finish(end_message, reset_indicator=True)", twin=True),
]

STC = "src/clikit/adapter/style_converter.py"
ANF = "src/clikit/formatter/ansi_formatter.py"
PLF = "src/clikit/formatter/plain_formatter.py"
IND = "src/clikit/api/io/indent.py"

MUTANTS["C11"] = [
    M("f9-regression", SEC, "            return super(SectionOutput, self).write(\n                string, flags=flags, new_line=new_line, with_indent=with_indent\n            )", "            return super(SectionOutput, self).write(string, flags=flags)", expect="C11-R1"),
    M("f10-regression", IOF, "        self._error_output.write_line_raw(string, flags=flags)", "        self._error_output.write_raw(string, flags=flags)", expect="C11-R1"),
    M("write-line-no-newline", OUT, "self.write(string, flags=flags, new_line=True)", "self.write(string, flags=flags, new_line=False)", expect="C11-R1"),
    M("double-newline-raw", OUT, 'self._stream.write(to_str(string.rstrip("\\n") + "\\n"))', 'self._stream.write(to_str(string + "\\n\\n"))', expect="C11-R1"),
    M("underline-wrong-name", STC, 'options.append("underline")', 'options.append("underscore")', expect="C11-R2"),
    M("dark-not-consulted", STC, '        if style.is_dark():\n            options.append("dark")\n\n', "", expect="C11-R2"),
    M("blink-as-bold", STC, 'options.append("blink")', 'options.append("bold")', expect="C11-R2"),
    M("add-style-without-background", ANF, "            style.tag,\n            pastel_style.foreground,\n            pastel_style.background,\n            pastel_style.options,", "            style.tag,\n            pastel_style.foreground,\n            None,\n            pastel_style.options,", expect="C11-R3"),
    M("exit-guarded-by-exc-type", IND, "        for i, output in enumerate(self._outputs):\n            output._indent = self._original_indents[i]", "        if exc_type is None:\n            for i, output in enumerate(self._outputs):\n                output._indent = self._original_indents[i]", expect="C11-R5"),
    M("exit-swallows", IND, "            output._indent = self._original_indents[i]\n", "            output._indent = self._original_indents[i]\n\n        return True\n", expect="C11-R5"),
    M("plain-formatter-colored", PLF, "self._formatter = Pastel(False)", "self._formatter = Pastel(True)", expect="C11-R4"),
    M("plain-no-style-registration", PLF, "        for tag, style in style_set.styles.items():\n            pastel_style = StyleConverter.convert(style)\n\n            self._formatter.add_style(\n                tag,\n                pastel_style.foreground,\n                pastel_style.background,\n                pastel_style.options,\n            )\n\n    def format", "        pass\n\n    def format", expect="C11-R"),
    M("unscoped-indent", "src/clikit/ui/components/exception_trace.py", "        with io.increment_indent(2):\n            return self._render_exception(io, self._exception)", "        io.increment_indent(2)\n        return self._render_exception(io, self._exception)", expect="C11-R5"),
    M("undecorated-formats", OUT, "            if self._format_output:\n                formatted = self.format(string)\n            else:\n                formatted = self.remove_format(string)", "            formatted = self.format(string)", expect="C11-R4"),
    M("twin-newline-via-local", OUT, 'self._stream.write(to_str(string.rstrip("\\n") + "\\n"))', 'line = string.rstrip("\\n") + "\\n"\n            self._stream.write(to_str(line))', twin=True),
    M("twin-kw-order", OUT, "self.write(string, flags=flags, new_line=True)", "self.write(string, new_line=True, flags=flags)", twin=True),
]

PBR = "src/clikit/ui/components/progress_bar.py"

MUTANTS["C15"] = [
    M("F24-rows-as-lines", "src/clikit/api/io/section_output.py", "            lines = sum(self._get_row_count(line) for line in removed_content[::2])\n", "", expect="C15-R6"),
    M("control-code-on-plain-arm", SEC, "        if not self.supports_ansi() and not self._formatter.force_ansi():\n            return super(SectionOutput, self).write(",
      "        if not self.supports_ansi() and not self._formatter.force_ansi():\n            self._pop_stream_content_until_current_section()\n            return super(SectionOutput, self).write(", expect="C15-R1"),
    M("clear-unguarded", SEC, "        if (\n            not self._content\n            or not self.supports_ansi()\n            and not self._formatter.force_ansi()\n        ):\n            return\n", "        if not self._content:\n            return\n", expect="C15-R1"),
    M("reversed-dropped", SEC, 'return "".join(reversed(erased_content))', 'return "".join(erased_content)', expect="C15-R3"),
    M("append-instead-of-insert", SEC, "        sections.insert(0, self)", "        sections.append(self)", expect="C15-R3"),
    M("f9-regression", SEC, "            return super(SectionOutput, self).write(\n                string, flags=flags, new_line=new_line, with_indent=with_indent\n            )", "            return super(SectionOutput, self).write(string, flags=flags)", expect="C15-R2"),
    M("scan-does-not-stop-at-self", SEC, "            if section is self:\n                break\n\n", "", expect="C15-R3"),
    M("twin-guard-positive-form", SEC, "        if not self.supports_ansi() and not self._formatter.force_ansi():\n            return super(SectionOutput, self).write(\n                string, flags=flags, new_line=new_line, with_indent=with_indent\n            )\n",
      "        decorated = self.supports_ansi() or self._formatter.force_ansi()\n        if not (self.supports_ansi() or self._formatter.force_ansi()):\n            return super(SectionOutput, self).write(\n                string, flags=flags, new_line=new_line, with_indent=with_indent\n            )\n", twin=True),
]

MUTANTS["C16"] = [
    M("throttle-before-max", PBR,
      "        # Draw regardless of other limits\n        if step == self._max:\n            self.display()\n\n            return\n\n        # Throttling\n        if time_interval < self._min_seconds_between_redraws:\n            return\n",
      "        # Throttling\n        if time_interval < self._min_seconds_between_redraws:\n            return\n\n        # Draw regardless of other limits\n        if step == self._max:\n            self.display()\n\n            return\n", expect="C16-R3"),
    M("carriage-return-unconditional", PBR, "        if self._should_overwrite:\n            if isinstance(self._io, SectionOutput):", "        self._io.write(\"\\x0D\")\n        if self._should_overwrite:\n            if isinstance(self._io, SectionOutput):", expect="C16-R1"),
    M("finish-without-set-progress", PBR, "        self.set_progress(self._max)\n\n    def display", "        self.display()\n\n    def display", expect="C16-R4"),
    M("direct-stream-write", PBR, '        self._io.write("\\n".join(lines))\n        self._io.flush()', '        self._io.stream.write("\\n".join(lines))\n        self._io.flush()', expect="C16-R2"),
    M("overwrite-kept-on-plain", PBR, "            # Disable overwrite when output does not support ANSI codes.\n            self._should_overwrite = False\n", "            # Disable overwrite when output does not support ANSI codes.\n", expect="C16-R1"),
    M("display-ignores-quiet", PBR, "        if self._io.is_quiet():\n            return\n\n        if self._format is None:\n            self._set_real_format(\n                self._internal_format or self._determine_best_format()\n            )\n\n        self._overwrite(\n            re.sub(",
      "        if self._format is None:\n            self._set_real_format(\n                self._internal_format or self._determine_best_format()\n            )\n\n        self._overwrite(\n            re.sub(", expect="C16-R2"),
    M("finish-early-return-too-wide", PBR, "        if self._step == self._max and not self._should_overwrite:\n            return\n", "        if self._step == self._max:\n            return\n", expect="C16-R4"),
    M("twin-max-test-swapped", PBR, "        if step == self._max:\n            self.display()\n\n            return\n", "        if self._max == step:\n            self.display()\n            return\n", twin=True),
]

ABH = "src/clikit/ui/help/abstract_help.py"
APH = "src/clikit/ui/help/application_help.py"
CMH = "src/clikit/ui/help/command_help.py"

MUTANTS["C13"] = [
    M("F27-stale-strict-parse", "src/clikit/resolver/help_resolver.py", "            result = ResolveResult(result.command, result.raw_args)\n\n", "", expect="C13-R11"),
    M("f11-regression", ABH, '        description = option.description or ""\n', "        description = option.description\n", expect="C13-R1"),
    M("help-unnarrowed", CMH, "        if help:\n            self._render_description(layout, help)\n", "        self._render_description(layout, help)\n", expect="C13-R1"),
    M("hidden-test-removed-app", APH, "        if command.config.is_hidden():\n            return\n\n        description = command.config.description", "        description = command.config.description", expect="C13-R2"),
    M("hidden-test-removed-usage", CMH, "        for sub_command in command.sub_commands:\n            if sub_command.config.is_hidden():\n                continue\n", "        for sub_command in command.sub_commands:\n", expect="C13-R2"),
    M("k5-regression", CMH, "        for sub_command in command.default_sub_commands:\n            if sub_command.config.is_hidden():\n                continue\n", "        for sub_command in command.default_sub_commands:\n", expect="C13-R2"),
    M("own-options-only", CMH, "        if args_format.base_format and args_format.base_format.has_options():\n            self._render_global_options(\n                layout, args_format.base_format.get_options().values()\n            )\n\n", "", expect="C13-R3"),
    M("own-arguments-only", CMH, "self._render_arguments(layout, args_format.get_arguments().values())", "self._render_arguments(layout, args_format.get_arguments(False).values())", expect="C13-R3"),
    M("layout-cached-on-self", ABH, "        layout = BlockLayout()\n\n        self._render_help(layout)\n\n        layout.render(io, indentation)", "        if not hasattr(self, \"_layout\"):\n            self._layout = BlockLayout()\n        layout = self._layout\n\n        self._render_help(layout)\n\n        layout.render(io, indentation)", expect="C13-R4"),
    M("alternative-name-dropped", ABH, "        if alternative_name:\n            name += \" ({})\".format(alternative_name)\n\n", "", expect="C13-R3"),
    M("twin-is-not-none", ABH, '        description = argument.description or ""\n', "        description = argument.description\n        if description is None:\n            description = \"\"\n", twin=True),
    M("twin-hidden-positive-form", APH, "        if command.config.is_hidden():\n            return\n\n        description = command.config.description\n        name = \"<c1>{}</c1>\".format(command.name)\n\n        layout.add(LabeledParagraph(name, description))",
      "        if not command.config.is_hidden():\n            description = command.config.description\n            name = \"<c1>{}</c1>\".format(command.name)\n\n            layout.add(LabeledParagraph(name, description))", twin=True),
]
