"""Mutants and refactor twins used by the checker self-test (thorough tier).

Each entry edits the *current* source in memory.  ``expect`` is the rule that
must raise a new finding.  Whether the mutant also keeps the pinned test suite
green was measured once on scratch copies; see DESIGN.md section 9.
"""
from .selftest import M

ED = "src/clikit/api/event/event_dispatcher.py"

MUTANTS = {}

MUTANTS["C12"] = [
    M("no-invalidation", ED,
      "        if event_name in self._sorted:\n            del self._sorted[event_name]\n", "", expect="C12-R1"),
    M("insert-front", ED, "self._listeners[event_name][priority].append(listener)",
      "self._listeners[event_name][priority].insert(0, listener)", expect="C12-R2"),
    M("ascending-sort", ED, "key=lambda t: -t[0]", "key=lambda t: t[0]", expect="C12-R2"),
    M("test-after-call", ED,
      "            if event.is_propagation_stopped():\n                break\n\n            listener(event, event_name, self)\n",
      "            listener(event, event_name, self)\n\n            if event.is_propagation_stopped():\n                break\n",
      expect="C12-R3"),
    M("no-reset", ED, "        self._sorted[event_name] = []\n\n", "        self._sorted.setdefault(event_name, [])\n\n", expect="C12-R4"),
    M("foreign-key", ED, "            return self._sorted[event_name]\n", "            return self._sorted[next(iter(self._sorted))]\n", expect="C12-R5"),
    M("reversed-dispatch", ED, "        for listener in listeners:\n            if event.is_propagation_stopped",
      "        for listener in reversed(listeners):\n            if event.is_propagation_stopped", expect="C12-R2"),
    M("cache-miss-not-rebuilt", ED,
      "            if event_name not in self._sorted:\n                self._sort_listeners(event_name)\n\n            return self._sorted[event_name]",
      "            if event_name not in self._sorted:\n                pass\n\n            return self._sorted[event_name]", expect="C12-R6"),
    M("twin-pop-invalidation", ED,
      "        if event_name in self._sorted:\n            del self._sorted[event_name]\n",
      "        self._sorted.pop(event_name, None)\n", twin=True),
    M("twin-reverse-true", ED, "key=lambda t: -t[0]", "key=lambda t: t[0], reverse=True", twin=True),
    M("twin-continue-form", ED,
      "            if event.is_propagation_stopped():\n                break\n\n            listener(event, event_name, self)\n",
      "            if not event.is_propagation_stopped():\n                listener(event, event_name, self)\n            else:\n                break\n",
      twin=True),
    M("twin-local-list", ED,
      "        self._sorted[event_name] = []\n\n        for priority, listeners in sorted(\n            self._listeners[event_name].items(), key=lambda t: -t[0]\n        ):\n            for listener in listeners:\n                self._sorted[event_name].append(listener)\n",
      "        result = []\n\n        for priority, listeners in sorted(\n            self._listeners[event_name].items(), key=lambda t: -t[0]\n        ):\n            for listener in listeners:\n                result.append(listener)\n\n        self._sorted[event_name] = result\n",
      twin=True),
]
