"""Self-test of the checker (thorough tier, still static).

For each rule the thorough tier builds, in memory (loader overlay, no scratch
copies on disk), *mutants* - the current source with one instance broken - on
which the named rule must raise a finding that the unmodified tree does not
have, and *refactor twins* - behaviour-preserving edits - on which no new
finding may appear.  A mutant whose anchor text is not present in the current
tree (the repository changed) is skipped and counted as such.
"""
import os
import multiprocessing

from .loader import REPO, AnalysisError


class M(object):
    def __init__(self, name, path, old, new, expect=None, twin=False, count=1, note=""):
        self.name = name
        self.path = path  # relative to repo root
        self.old = old
        self.new = new
        self.expect = expect  # rule id (prefix) that must fire; None for twins
        self.twin = twin
        self.count = count
        self.note = note


def apply_unified_diff(diff_text, read_file):
    """Apply a unified diff (git format) in memory.  read_file(relpath) -> str or None.
    Returns {relpath: new source} or None when a hunk does not match the current text."""
    import re

    out = {}
    cur = None
    lines = diff_text.split("\n")
    i = 0
    hunks = {}
    while i < len(lines):
        ln = lines[i]
        if ln.startswith("+++ "):
            cur = ln[4:].strip()
            if cur.startswith("b/"):
                cur = cur[2:]
            hunks[cur] = []
        elif ln.startswith("@@") and cur is not None:
            m = re.match(r"@@ -(\d+)(?:,(\d+))? \+(\d+)(?:,(\d+))? @@", ln)
            old_start = int(m.group(1))
            body = []
            i += 1
            while i < len(lines) and not lines[i].startswith(("@@", "diff --git", "--- ", "+++ ")):
                if lines[i].startswith("\\"):
                    i += 1
                    continue
                body.append(lines[i])
                i += 1
            while body and body[-1] == "":
                body.pop()
            hunks[cur].append((old_start, body))
            continue
        i += 1
    for path, hs in hunks.items():
        src = read_file(path)
        if src is None:
            return None
        src_lines = src.split("\n")
        offset = 0
        for old_start, body in hs:
            old_block = [b[1:] for b in body if b[:1] in (" ", "-")]
            new_block = [b[1:] for b in body if b[:1] in (" ", "+")]
            pos = old_start - 1 + offset
            if src_lines[pos:pos + len(old_block)] != old_block:
                # search nearby
                found = None
                for delta in range(-40, 41):
                    q_ = pos + delta
                    if q_ >= 0 and src_lines[q_:q_ + len(old_block)] == old_block:
                        found = q_
                        break
                if found is None:
                    return None
                pos = found
            src_lines[pos:pos + len(old_block)] = new_block
            offset += len(new_block) - len(old_block)
        out[path] = "\n".join(src_lines)
    return out


def _apply(m, repo):
    if getattr(m, "diff", None) is not None:
        def rd(rel):
            full = os.path.join(repo, rel)
            if not os.path.isfile(full):
                return None
            with open(full, encoding="utf-8") as f:
                return f.read()
        return apply_unified_diff(m.diff, rd)
    full = os.path.join(repo, m.path)
    if not os.path.isfile(full):
        return None
    with open(full, encoding="utf-8") as f:
        src = f.read()
    if src.count(m.old) < 1:
        return None
    return {m.path: src.replace(m.old, m.new, m.count)}


def _keys(results):
    return {f.key: f for r in results for f in r.findings}


def _one(args):
    prop, seed, m, base_keys, repo = args
    from .cli import run_property

    overlay = _apply(m, repo)
    if overlay is None:
        return (m.name, "skipped", "anchor text not present in the current tree", [])
    try:
        import ast

        for _src in overlay.values():
            ast.parse(_src)
    except SyntaxError as e:
        return (m.name, "broken", "mutant does not parse: %s" % e, [])
    try:
        ctx, results = run_property(prop, "quick", seed, repo=repo, overlay=overlay)
    except AnalysisError as e:
        # a mutant may remove an anchor: analysis error is "detected" for a
        # mutant, but wrong for a twin
        if m.twin:
            return (m.name, "FAILED", "twin caused ANALYSIS-ERROR: %s" % e, [])
        return (m.name, "detected", "analysis error (fail-closed): %s" % e, [])
    new = {k: f for k, f in _keys(results).items() if k not in base_keys}
    if m.twin:
        if new:
            return (m.name, "FAILED", "twin raised: %s" % sorted(new)[:3], sorted(new))
        return (m.name, "silent", "", [])
    hit = [k for k in new if m.expect is None or k.startswith(m.expect)]
    if hit:
        return (m.name, "detected", "", sorted(hit))
    return (m.name, "FAILED", "mutant not detected by %s (new findings: %s)" % (m.expect, sorted(new)[:3]), sorted(new))


def run(prop, seed, base_results=None, repo=None):
    """Returns a coverage dict for the evidence; raises AnalysisError when the
    checker fails its own test."""
    from . import mutants as mm
    from .cli import run_property

    repo = repo or REPO
    specs = list(mm.MUTANTS.get(prop, []))
    # independently seeded changes kept under /verif/seeded that this property's check is on record as catching
    import glob
    import json

    verif = os.path.dirname(os.path.dirname(os.path.abspath(__file__)))
    for d in sorted(glob.glob(os.path.join(verif, "seeded", "C*-*"))):
        try:
            meta = json.load(open(os.path.join(d, "meta.json")))
        except Exception:
            continue
        if prop in meta.get("detected_by", []):
            sm = M("seed:" + os.path.basename(d), None, None, None, expect=prop + "-R")
            sm.diff = open(os.path.join(d, "patch.diff")).read()
            specs.append(sm)
    # behaviour-preserving refactors written by independent sub-agents for this property's anchors: must stay silent
    for f in sorted(glob.glob(os.path.join(verif, "twins", prop + "-*.diff"))):
        tm = M("twin:" + os.path.basename(f)[:-5], None, None, None, twin=True)
        tm.diff = open(f).read()
        specs.append(tm)
    if not specs:
        return {"selftest": {"mutants": 0, "twins": 0}}
    if base_results is None:
        _, base_results = run_property(prop, "quick", seed, repo=repo)
    base_keys = set(_keys(base_results))
    jobs = [(prop, seed, m, base_keys, repo) for m in specs]
    from .parallel import pmap

    res = pmap(_one, jobs, workers=min(16, max(1, len(jobs))), timeout=300, label=lambda j: j[2].name)
    out = [((j[2].name, "broken", o[1], []) if (o and o[0] == "__error__") else o) for j, o in zip(jobs, res)]
    failed = [o for o in out if o[1] in ("FAILED", "broken")]
    summary = {
        "mutants": sum(1 for m in specs if not m.twin),
        "twins": sum(1 for m in specs if m.twin),
        "detected": sum(1 for o in out if o[1] == "detected"),
        "silent": sum(1 for o in out if o[1] == "silent"),
        "skipped": sum(1 for o in out if o[1] == "skipped"),
        "failed": [o[0] + ": " + o[2] for o in failed],
        "cases": [{"name": o[0], "result": o[1], "findings": o[3][:2]} for o in out],
    }
    print("  selftest: %d mutants (%d detected), %d twins (%d silent), %d skipped" % (
        summary["mutants"], summary["detected"], summary["twins"], summary["silent"], summary["skipped"]))
    for o in failed:
        print("  selftest FAILED: %s: %s" % (o[0], o[2]))
    if failed:
        raise AnalysisError("checker self-test failed for %s: %s" % (prop, "; ".join(o[0] for o in failed)))
    return {"selftest": summary}
