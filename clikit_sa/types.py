"""E1 (second half): local type environment used only to resolve receivers.

Types are small may-sets: classes of the analysed package, primitive names,
an element type for containers/iterators and an ``optional`` bit.  Inference is
flow-insensitive per variable (union of all definitions), which is what call
resolution needs ("may-call").
"""
import ast

from .loader import ClassInfo, FuncInfo, Module, walk_no_nested, is_self_attr


class T(object):
    __slots__ = ("classes", "prims", "elem", "optional", "clsobjs", "funcs", "key")

    def __init__(self, classes=(), prims=(), elem=None, optional=False, clsobjs=(), funcs=(), key=None):
        self.classes = frozenset(classes)
        self.prims = frozenset(prims)
        self.elem = elem
        self.optional = optional
        self.clsobjs = frozenset(clsobjs)  # value *is* a class object
        self.funcs = frozenset(funcs)  # value is a (bound) function
        self.key = key  # dict key type

    def is_empty(self):
        return not (self.classes or self.prims or self.clsobjs or self.funcs)

    def join(self, other):
        if other is None:
            return self
        elem = self.elem
        if other.elem is not None:
            if elem is None:
                elem = other.elem
            elif elem is other.elem or isinstance(elem, tuple) or isinstance(other.elem, tuple):
                pass
            else:
                elem = elem.join(other.elem)
        key = self.key or other.key
        return T(
            self.classes | other.classes,
            self.prims | other.prims,
            elem,
            self.optional or other.optional,
            self.clsobjs | other.clsobjs,
            self.funcs | other.funcs,
            key,
        )

    def __repr__(self):
        parts = sorted(c.name for c in self.classes) + sorted(self.prims)
        parts += ["type[%s]" % c.name for c in self.clsobjs]
        parts += ["fn:%s" % f.short for f in self.funcs]
        s = "|".join(parts) or "?"
        if self.elem is not None:
            s += "[%r]" % (self.elem,)
        if self.optional:
            s += "?"
        return s


UNKNOWN = T()
STR = T(prims=["str"])
INT = T(prims=["int"])
BOOL = T(prims=["bool"])
NONE = T(prims=["None"], optional=True)

_STR_METHODS_STR = {
    "strip", "lstrip", "rstrip", "lower", "upper", "title", "format", "replace", "join",
    "ljust", "rjust", "center", "capitalize", "decode", "encode", "expandtabs", "zfill",
}
_STR_METHODS_LIST = {"split", "rsplit", "splitlines"}
_CONTAINER_ANN = {"List", "Iterable", "Iterator", "Tuple", "Set", "Sequence", "list", "set", "tuple", "FrozenSet"}


class Typer(object):
    def __init__(self, program):
        self.p = program
        self._env_cache = {}
        self._attr_cache = {}
        self._prev_env = {}
        self._prev_attr = {}
        self._in_progress = set()
        self.param_hints = {}  # (func qualname, param) -> T   (filled by the call graph)

    def rotate(self):
        """Start a new inference round: results of the finished round become
        the fallback values used when a lookup hits a cycle."""
        self._prev_env = self._env_cache
        self._prev_attr = self._attr_cache
        self._env_cache = {}
        self._attr_cache = {}
        self._in_progress = set()

    # -------------------------------------------------------- annotations
    def from_annotation(self, expr, mod, fi=None):
        if expr is None:
            return UNKNOWN
        if isinstance(expr, ast.Constant):
            if expr.value is None:
                return NONE
            if isinstance(expr.value, str):
                try:
                    return self.from_annotation(ast.parse(expr.value, mode="eval").body, mod, fi)
                except SyntaxError:
                    return UNKNOWN
            return UNKNOWN
        if isinstance(expr, ast.Name):
            n = expr.id
            if n in ("str", "unicode", "basestring", "bytes"):
                return STR
            if n == "int" or n == "float":
                return T(prims=[n])
            if n == "bool":
                return BOOL
            if n in ("list", "dict", "set", "tuple"):
                return T(prims=[n])
            if n in ("Any", "object", "Callable"):
                return UNKNOWN
            r = self.p.resolve_in_func(fi, n) if fi is not None else self.p.resolve_global(mod.name, n)
            if isinstance(r, ClassInfo):
                return T(classes=[r])
            if isinstance(r, tuple) and r[0] == "external" and not r[1].startswith("typing."):
                return T(prims=["external"])
            if n in ("List", "Iterable", "Iterator", "Sequence"):
                return T(prims=["list"])
            if n == "Dict":
                return T(prims=["dict"])
            return UNKNOWN
        if isinstance(expr, ast.Attribute):
            # e.g. IO.__class__, io.TextIOWrapper
            if expr.attr == "__class__":
                base = self.from_annotation(expr.value, mod, fi)
                return T(clsobjs=base.classes)
            r = self.p.resolve_class_expr(mod, expr, fi)
            if isinstance(r, ClassInfo):
                return T(classes=[r])
            if isinstance(r, tuple) and r[0] == "external":
                return T(prims=["external"])
            return UNKNOWN
        if isinstance(expr, ast.Subscript):
            head = expr.value.id if isinstance(expr.value, ast.Name) else None
            sl = expr.slice
            args = list(sl.elts) if isinstance(sl, ast.Tuple) else [sl]
            if head == "Optional":
                t = self.from_annotation(args[0], mod, fi)
                return T(t.classes, t.prims, t.elem, True, t.clsobjs, t.funcs, t.key)
            if head == "Union":
                t = UNKNOWN
                for a in args:
                    t = t.join(self.from_annotation(a, mod, fi))
                return t
            if head in _CONTAINER_ANN:
                el = UNKNOWN
                for a in args:
                    el = el.join(self.from_annotation(a, mod, fi))
                return T(prims=["list"], elem=el)
            if head == "Dict":
                k = self.from_annotation(args[0], mod, fi) if args else UNKNOWN
                v = self.from_annotation(args[1], mod, fi) if len(args) > 1 else UNKNOWN
                return T(prims=["dict"], elem=v, key=k)
            if head == "ContextManager":
                return self.from_annotation(args[0], mod, fi)
            return UNKNOWN
        if isinstance(expr, ast.Tuple):
            t = UNKNOWN
            for a in expr.elts:
                t = t.join(self.from_annotation(a, mod, fi))
            return t
        return UNKNOWN

    def return_type(self, fi):
        if fi.ret_type is not None:
            t = self.from_annotation(fi.ret_type, fi.module, fi)
            if not t.is_empty() and t.prims != frozenset(["None"]):
                return t
        if fi.node.returns is not None:
            t = self.from_annotation(fi.node.returns, fi.module, fi)
            if not t.is_empty():
                return t
        # infer from return statements (one level)
        key = ("ret", fi.qualname)
        if key in self._attr_cache:
            return self._attr_cache[key]
        if key in self._in_progress:
            return self._prev_attr.get(key, UNKNOWN)
        self._in_progress.add(key)
        t = UNKNOWN
        try:
            env = self.env(fi)
            for n in walk_no_nested(fi.node):
                if isinstance(n, ast.Return) and n.value is not None:
                    t = t.join(self.expr_type(n.value, fi, env))
        finally:
            self._in_progress.discard(key)
        self._attr_cache[key] = t
        return t

    # ------------------------------------------------------- environments
    def env(self, fi):
        if fi.qualname in self._env_cache:
            return self._env_cache[fi.qualname]
        ekey = ("env", fi.qualname)
        if ekey in self._in_progress:
            return self._prev_env.get(fi.qualname) or self._partial_env.get(fi.qualname, {})
        self._in_progress.add(ekey)
        env = {}
        if not hasattr(self, "_partial_env"):
            self._partial_env = {}
        self._partial_env[fi.qualname] = env
        try:
            self._fill_env(fi, env)
        finally:
            self._in_progress.discard(ekey)
            self._partial_env.pop(fi.qualname, None)
        self._env_cache[fi.qualname] = env
        return env

    def _fill_env(self, fi, env):
        if fi.parent is not None:
            env.update(self.env(fi.parent))
        params = list(fi.params)
        if fi.cls is not None and params and not fi.is_staticmethod:
            if fi.is_classmethod:
                env[params[0]] = T(clsobjs=[fi.cls])
            else:
                env[params[0]] = T(classes=[fi.cls])
            params = params[1:]
        for p in params + ([fi.vararg] if fi.vararg else []) + list(fi.kwonly):
            t = UNKNOWN
            if p in fi.arg_types:
                t = self.from_annotation(fi.arg_types[p], fi.module, fi)
            else:
                for a in fi.node.args.args + fi.node.args.kwonlyargs:
                    if a.arg == p and a.annotation is not None:
                        t = self.from_annotation(a.annotation, fi.module, fi)
            if p == fi.vararg and not t.is_empty():
                t = T(prims=["list"], elem=t.elem or t)
            hint = self.param_hints.get((fi.qualname, p))
            if t.is_empty() and hint is not None:
                t = hint
            d = fi.defaults.get(p)
            if d is not None and isinstance(d, ast.Constant) and d.value is None and not t.is_empty():
                t = T(t.classes, t.prims, t.elem, True, t.clsobjs, t.funcs, t.key)
            env[p] = t
        # two passes so that later definitions feed earlier uses in loops
        for _ in range(2):
            for n in walk_no_nested(fi.node):
                self._bind_stmt(n, fi, env)
        return env

    def _bind(self, env, target, t, fi):
        if isinstance(target, ast.Name):
            old = env.get(target.id)
            env[target.id] = t if old is None else old.join(t)
        elif isinstance(target, (ast.Tuple, ast.List)):
            for i, el in enumerate(target.elts):
                sub = UNKNOWN
                if t.elem is not None and "tuple" in t.prims and isinstance(t.elem, tuple):
                    sub = t.elem[i] if i < len(t.elem) else UNKNOWN
                elif t.elem is not None and not isinstance(t.elem, tuple):
                    sub = t.elem
                self._bind(env, el, sub, fi)

    def _bind_stmt(self, n, fi, env):
        if isinstance(n, ast.Assign):
            t = self.expr_type(n.value, fi, env)
            tc = getattr(n, "type_comment", None)
            if tc:
                try:
                    t2 = self.from_annotation(ast.parse(tc, mode="eval").body, fi.module, fi)
                    if not t2.is_empty():
                        t = t2
                except SyntaxError:
                    pass
            for tg in n.targets:
                self._bind(env, tg, t, fi)
        elif isinstance(n, ast.AnnAssign) and n.value is not None:
            self._bind(env, n.target, self.from_annotation(n.annotation, fi.module, fi), fi)
        elif isinstance(n, ast.AugAssign):
            self._bind(env, n.target, self.expr_type(n.value, fi, env), fi)
        elif isinstance(n, (ast.For, ast.comprehension)):
            it = self.expr_type(n.iter, fi, env)
            self._bind(env, n.target, self._elem_of(it), fi)
        elif isinstance(n, ast.With):
            for item in n.items:
                if item.optional_vars is not None:
                    self._bind(env, item.optional_vars, self._enter_type(item.context_expr, fi, env), fi)
        elif isinstance(n, ast.ExceptHandler) and n.name:
            t = UNKNOWN
            if n.type is not None:
                for e in (n.type.elts if isinstance(n.type, ast.Tuple) else [n.type]):
                    r = self.p.resolve_class_expr(fi.module, e, fi)
                    if isinstance(r, ClassInfo):
                        t = t.join(T(classes=[r]))
                    elif isinstance(e, ast.Name):
                        t = t.join(T(prims=["exc:" + e.id]))
            env[n.name] = t if n.name not in env else env[n.name].join(t)
        elif isinstance(n, ast.NamedExpr):
            self._bind(env, n.target, self.expr_type(n.value, fi, env), fi)

    def _enter_type(self, expr, fi, env):
        t = self.expr_type(expr, fi, env)
        out = UNKNOWN
        for c in t.classes:
            m = self.p.lookup_method(c, "__enter__")
            if m is not None:
                rt = self.return_type(m)
                out = out.join(rt if not rt.is_empty() else T(classes=[c]))
            else:
                out = out.join(T(classes=[c]))
        if out.is_empty():
            return t
        return out

    def _elem_of(self, t):
        if t.elem is not None:
            if isinstance(t.elem, tuple):
                return T(prims=["tuple"], elem=t.elem)
            return t.elem
        out = UNKNOWN
        for c in t.classes:
            m = self.p.lookup_method(c, "__iter__")
            if m is not None:
                out = out.join(self._elem_of(self.return_type(m)))
        if "str" in t.prims:
            out = out.join(STR)
        return out

    # -------------------------------------------------------- expressions
    def attr_type(self, cls, attr):
        """Type of ``instance.attr`` for an instance of ``cls``."""
        key = (cls.qualname, attr)
        if key in self._attr_cache:
            return self._attr_cache[key]
        if key in self._in_progress:
            return self._prev_attr.get(key, UNKNOWN)
        self._in_progress.add(key)
        t = UNKNOWN
        try:
            m = self.p.lookup_method(cls, attr)
            if m is not None:
                if m.is_property:
                    t = self.return_type(m)
                else:
                    t = T(funcs=[m])
            else:
                # subclasses may assign the attribute too (receiver may be one)
                for c in list(cls.mro) + self.p.subclasses(cls, strict=True):
                    if not isinstance(c, ClassInfo):
                        continue
                    if attr in c.attrs:
                        t = t.join(self._const_expr_type(c.attrs[attr], c.module))
                    for meth in c.methods.values():
                        for n in walk_no_nested(meth.node):
                            targets = []
                            if isinstance(n, ast.Assign):
                                targets = [(tg, n.value, getattr(n, "type_comment", None)) for tg in n.targets]
                                # self.attr[k] = v  -> element type
                                for tg in n.targets:
                                    if isinstance(tg, ast.Subscript) and is_self_attr(tg.value, attr):
                                        el = self.expr_type(n.value, meth, self.env(meth))
                                        if not el.is_empty():
                                            t = t.join(T(elem=el))
                            elif (
                                isinstance(n, ast.Call)
                                and isinstance(n.func, ast.Attribute)
                                and n.func.attr in ("append", "insert", "add")
                                and is_self_attr(n.func.value, attr)
                                and n.args
                            ):
                                el = self.expr_type(n.args[-1], meth, self.env(meth))
                                if not el.is_empty():
                                    t = t.join(T(elem=el))
                            for tg, val, tc in targets:
                                if is_self_attr(tg, attr):
                                    if tc:
                                        try:
                                            t2 = self.from_annotation(ast.parse(tc, mode="eval").body, c.module, meth)
                                        except SyntaxError:
                                            t2 = UNKNOWN
                                        if not t2.is_empty():
                                            t = t.join(t2)
                                            continue
                                    t = t.join(self.expr_type(val, meth, self.env(meth)))
        finally:
            self._in_progress.discard(key)
        self._attr_cache[key] = t
        return t

    def _const_expr_type(self, node, mod):
        if isinstance(node, ast.Constant):
            v = node.value
            if v is None:
                return NONE
            if isinstance(v, bool):
                return BOOL
            if isinstance(v, int):
                return INT
            if isinstance(v, str):
                return STR
        if isinstance(node, (ast.List, ast.ListComp)):
            return T(prims=["list"])
        if isinstance(node, (ast.Dict, ast.DictComp)):
            return T(prims=["dict"])
        if isinstance(node, (ast.Set, ast.SetComp)):
            return T(prims=["set"])
        return UNKNOWN

    def expr_type(self, e, fi, env=None, depth=0):
        if env is None:
            env = self.env(fi)
        if depth > 12 or e is None:
            return UNKNOWN
        if isinstance(e, ast.Name):
            if e.id in env:
                return env[e.id]
            r = self.p.resolve_in_func(fi, e.id)
            if isinstance(r, ClassInfo):
                return T(clsobjs=[r])
            if isinstance(r, FuncInfo):
                return T(funcs=[r])
            if isinstance(r, tuple) and r[0] == "const":
                return self._const_expr_type(r[1], r[2])
            if e.id in ("True", "False"):
                return BOOL
            return UNKNOWN
        if isinstance(e, ast.Constant):
            return self._const_expr_type(e, fi.module)
        if isinstance(e, ast.JoinedStr):
            return STR
        if isinstance(e, (ast.List, ast.ListComp, ast.Tuple, ast.Set, ast.SetComp, ast.GeneratorExp)):
            el = UNKNOWN
            if isinstance(e, (ast.List, ast.Tuple, ast.Set)):
                for x in e.elts[:8]:
                    el = el.join(self.expr_type(x, fi, env, depth + 1))
            elif isinstance(e, (ast.ListComp, ast.SetComp, ast.GeneratorExp)):
                sub = dict(env)
                for g in e.generators:
                    self._bind(sub, g.target, self._elem_of(self.expr_type(g.iter, fi, sub, depth + 1)), fi)
                el = self.expr_type(e.elt, fi, sub, depth + 1)
            return T(prims=["list"], elem=el if not el.is_empty() else None)
        if isinstance(e, (ast.Dict, ast.DictComp)):
            el = UNKNOWN
            if isinstance(e, ast.Dict):
                for v in e.values[:8]:
                    el = el.join(self.expr_type(v, fi, env, depth + 1))
            return T(prims=["dict"], elem=el if not el.is_empty() else None)
        if isinstance(e, ast.Attribute):
            if e.attr == "__class__":
                base = self.expr_type(e.value, fi, env, depth + 1)
                return T(clsobjs=base.classes)
            base = self.expr_type(e.value, fi, env, depth + 1)
            t = UNKNOWN
            for c in base.classes:
                t = t.join(self.attr_type(c, e.attr))
            for c in base.clsobjs:
                m = self.p.lookup_method(c, e.attr)
                if m is not None:
                    t = t.join(T(funcs=[m]))
                else:
                    _, v = self.p.lookup_attr(c, e.attr)
                    if v is not None:
                        t = t.join(self._const_expr_type(v, c.module))
            if isinstance(e.value, ast.Name):
                r = self.p.resolve_in_func(fi, e.value.id) if e.value.id not in env else None
                if isinstance(r, Module):
                    g = self.p.resolve_global(r.name, e.attr)
                    if isinstance(g, ClassInfo):
                        t = t.join(T(clsobjs=[g]))
                    elif isinstance(g, FuncInfo):
                        t = t.join(T(funcs=[g]))
            return t
        if isinstance(e, ast.Call):
            return self._call_type(e, fi, env, depth)
        if isinstance(e, ast.Subscript):
            base = self.expr_type(e.value, fi, env, depth + 1)
            if isinstance(e.slice, ast.Slice):
                return base
            if "str" in base.prims and not base.classes:
                return STR
            return self._elem_of(base) if base.elem is not None else UNKNOWN
        if isinstance(e, ast.BoolOp):
            t = UNKNOWN
            for v in e.values:
                t = t.join(self.expr_type(v, fi, env, depth + 1))
            return t
        if isinstance(e, ast.IfExp):
            return self.expr_type(e.body, fi, env, depth + 1).join(self.expr_type(e.orelse, fi, env, depth + 1))
        if isinstance(e, ast.BinOp):
            l = self.expr_type(e.left, fi, env, depth + 1)
            r = self.expr_type(e.right, fi, env, depth + 1)
            if isinstance(e.op, ast.Mod) and "str" in l.prims:
                return STR
            return T(prims=(l.prims | r.prims) & {"str", "int", "float", "list"}, elem=l.elem or r.elem)
        if isinstance(e, ast.Compare) or (isinstance(e, ast.UnaryOp) and isinstance(e.op, ast.Not)):
            return BOOL
        if isinstance(e, ast.UnaryOp):
            return self.expr_type(e.operand, fi, env, depth + 1)
        if isinstance(e, ast.Lambda):
            if getattr(e, "_fi", None) is not None:
                return T(prims=["callable"], funcs=[e._fi])
            return T(prims=["callable"])
        if isinstance(e, ast.Starred):
            return self.expr_type(e.value, fi, env, depth + 1)
        if isinstance(e, ast.NamedExpr):
            return self.expr_type(e.value, fi, env, depth + 1)
        return UNKNOWN

    def _call_type(self, e, fi, env, depth):
        f = e.func
        if isinstance(f, ast.Name):
            n = f.id
            if n not in env:
                if n in ("str", "repr", "format", "chr"):
                    return STR
                if n in ("int", "len", "ord", "round", "sum", "abs"):
                    return INT
                if n == "float":
                    return T(prims=["float"])
                if n in ("bool", "isinstance", "hasattr", "callable", "any", "all"):
                    return BOOL
                if n in ("list", "sorted", "reversed", "iter", "tuple", "set", "filter"):
                    if e.args:
                        src = self.expr_type(e.args[0], fi, env, depth + 1)
                        el = self._elem_of(src)
                        return T(prims=["list"], elem=el if not el.is_empty() else None)
                    return T(prims=["list"])
                if n in ("dict", "OrderedDict"):
                    return T(prims=["dict"])
                if n == "enumerate" and e.args:
                    src = self.expr_type(e.args[0], fi, env, depth + 1)
                    return T(prims=["list"], elem=(INT, self._elem_of(src)))
                if n == "zip":
                    return T(prims=["list"], elem=tuple(self._elem_of(self.expr_type(a, fi, env, depth + 1)) for a in e.args))
                if n == "next" and e.args:
                    src = self.expr_type(e.args[0], fi, env, depth + 1)
                    el = self._elem_of(src)
                    if len(e.args) > 1:
                        el = T(el.classes, el.prims, el.elem, True, el.clsobjs, el.funcs, el.key)
                    return el
                if n in ("min", "max") and e.args:
                    t = UNKNOWN
                    for a in e.args:
                        t = t.join(self.expr_type(a, fi, env, depth + 1))
                    return t
                if n == "getattr" and len(e.args) >= 2 and isinstance(e.args[1], ast.Constant):
                    fake = ast.Attribute(value=e.args[0], attr=e.args[1].value, ctx=ast.Load())
                    return self.expr_type(fake, fi, env, depth + 1)
                if n == "super":
                    return UNKNOWN
                if n == "copy" or n == "deepcopy":
                    if e.args:
                        return self.expr_type(e.args[0], fi, env, depth + 1)
                r = self.p.resolve_in_func(fi, n)
                if isinstance(r, tuple) and r[0] in ("external", "const"):
                    return T(prims=["external"])
            ft = self.expr_type(f, fi, env, depth + 1)
            return self._apply(ft)
        if isinstance(f, ast.Attribute):
            # super().m(...)
            sup = self.super_target(f, fi)
            if sup is not None:
                return self.return_type(sup) if not sup.is_property else UNKNOWN
            base = self.expr_type(f.value, fi, env, depth + 1)
            a = f.attr
            t = UNKNOWN
            if "dict" in base.prims:
                if a == "values":
                    t = t.join(T(prims=["list"], elem=base.elem))
                elif a == "keys":
                    t = t.join(T(prims=["list"], elem=base.key))
                elif a == "items":
                    t = t.join(T(prims=["list"], elem=(base.key or UNKNOWN, base.elem or UNKNOWN)))
                elif a in ("get", "pop", "setdefault"):
                    if base.elem is not None:
                        el = base.elem
                        t = t.join(T(el.classes, el.prims, el.elem, True, el.clsobjs, el.funcs, el.key))
                elif a == "copy":
                    t = t.join(base)
            if "list" in base.prims:
                if a == "pop" and base.elem is not None and not isinstance(base.elem, tuple):
                    t = t.join(base.elem)
                elif a == "copy":
                    t = t.join(base)
                elif a == "index" or a == "count":
                    t = t.join(INT)
            if "str" in base.prims:
                if a in _STR_METHODS_STR:
                    t = t.join(STR)
                elif a in _STR_METHODS_LIST:
                    t = t.join(T(prims=["list"], elem=STR))
                elif a in ("startswith", "endswith", "isspace", "isalpha", "isdigit"):
                    t = t.join(BOOL)
                elif a in ("find", "count", "index"):
                    t = t.join(INT)
            ft = self.expr_type(f, fi, env, depth + 1)
            return t.join(self._apply(ft))
        ft = self.expr_type(f, fi, env, depth + 1)
        return self._apply(ft)

    def _apply(self, ft):
        t = UNKNOWN
        for c in ft.clsobjs:
            t = t.join(T(classes=[c]))
        for fn in ft.funcs:
            if fn.is_contextmanager:
                t = t.join(self._yield_type(fn))
            else:
                t = t.join(self.return_type(fn))
        for c in ft.classes:
            m = self.p.lookup_method(c, "__call__")
            if m is not None:
                t = t.join(self.return_type(m))
        return t

    def _yield_type(self, fn):
        t = UNKNOWN
        env = self.env(fn)
        for n in walk_no_nested(fn.node):
            if isinstance(n, ast.Yield) and n.value is not None:
                t = t.join(self.expr_type(n.value, fn, env))
        if t.is_empty():
            t = self.return_type(fn)
        return t

    def super_target(self, func_attr, fi):
        """FuncInfo targeted by ``super(X, self).m`` / ``super().m`` or None."""
        v = func_attr.value
        if not (isinstance(v, ast.Call) and isinstance(v.func, ast.Name) and v.func.id == "super"):
            return None
        cls = fi.cls
        f = fi
        while cls is None and f is not None:
            f = f.parent
            cls = f.cls if f is not None else None
        if cls is None:
            return None
        start = cls
        if v.args:
            r = self.p.resolve_class_expr(fi.module, v.args[0], fi)
            if isinstance(r, ClassInfo):
                start = r
        mro = [c for c in cls.mro]
        if start in mro:
            rest = mro[mro.index(start) + 1:]
        else:
            rest = start.mro[1:]
        for c in rest:
            if isinstance(c, ClassInfo) and func_attr.attr in c.methods:
                return c.methods[func_attr.attr]
        return None
