"""./check <ID> [--tier quick|thorough] [--replay <finding.json>]"""
import importlib
import json
import os
import sys
import time
import traceback

from .loader import AnalysisError
from .context import Ctx
from . import report


def run_property(prop, tier, seed, repo=None, overlay=None, quiet=False):
    """Run all rules of one property; returns (ctx, results)."""
    mod = importlib.import_module("clikit_sa.rules.%s" % prop.lower())
    ctx = Ctx(prop, tier=tier, seed=seed, repo=repo, overlay=overlay)
    mod.run(ctx)
    # non-vacuity: a rule whose anchor exists but that enumerated nothing
    for r in ctx.results:
        if r.n == 0 and not r.vacuous_ok:
            raise AnalysisError("rule %s enumerated zero instances (would pass vacuously)" % r.rule_id)
    return ctx, ctx.results


def main(argv=None):
    argv = list(sys.argv[1:] if argv is None else argv)
    t0 = time.time()
    tier = os.environ.get("VERIF_TIER", "quick")
    replay = None
    prop = None
    i = 0
    while i < len(argv):
        a = argv[i]
        if a == "--tier":
            tier = argv[i + 1]
            i += 2
        elif a == "--replay":
            replay = argv[i + 1]
            i += 2
        else:
            prop = a
            i += 1
    if tier not in ("quick", "thorough"):
        tier = "quick"
    try:
        seed = int(os.environ.get("VERIF_SEED", "0"))
    except ValueError:
        seed = 0
    if prop is None:
        print("usage: check <ID> [--tier quick|thorough] [--replay path]")
        return 2
    prop = prop.upper()
    try:
        ctx, results = run_property(prop, tier, seed)
        if replay:
            with open(replay) as fh:
                want = json.load(fh)
            hit = False
            for r in results:
                for f in r.findings:
                    if f.key == want.get("key"):
                        hit = True
                        print("REPLAY: still present: %s: %s: %s" % (f.loc, f.rule, f.message))
                        print("VIOLATION property=%s replay=%s" % (prop, replay))
            if not hit:
                print("REPLAY: finding %s no longer reported on the current tree" % want.get("key"))
            return 1 if hit else 0
        extra = None
        if tier == "thorough":
            known = {k["key"] for k in report.load_known()["known"]}
            unknown = [f for r in results for f in r.findings if f.key not in known]
            if not unknown:
                # the checker tests itself only when the tree is clean: on a
                # tree with violations the violations are the result
                from . import selftest

                extra = selftest.run(prop, seed, base_results=results)
        return report.finish(prop, tier, seed, results, t0, program=ctx.p, consulted=sorted(ctx.consulted), extra_cov=extra)
    except AnalysisError as e:
        print("ANALYSIS-ERROR property=%s: %s" % (prop, e))
        return 2
    except Exception:
        print("ANALYSIS-ERROR property=%s: internal error" % prop)
        traceback.print_exc()
        return 2


if __name__ == "__main__":
    sys.exit(main())
