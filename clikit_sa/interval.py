"""E7: tiny interval / constant evaluator over min, max, int, len, +, -, constants,
with function-return summaries.  Intervals are (lo, hi) with None = unbounded;
the special value NONE_OR marks 'may also be None' (bare return)."""
import ast

from .loader import walk_no_nested, FuncInfo

INF = float("inf")
TOP = (-INF, INF)


def join(a, b):
    if a is None:
        return b
    if b is None:
        return a
    return (min(a[0], b[0]), max(a[1], b[1]))


class Intervals(object):
    def __init__(self, ctx):
        self.ctx = ctx
        self._ret = {}
        self._busy = set()

    def returns(self, fi):
        """(interval, may_return_none) over all return statements of fi."""
        if fi.qualname in self._ret:
            return self._ret[fi.qualname]
        if fi.qualname in self._busy:
            return (TOP, True)
        self._busy.add(fi.qualname)
        iv = None
        none = False
        rets = [n for n in walk_no_nested(fi.node) if isinstance(n, ast.Return)]
        for r in rets:
            if r.value is None or (isinstance(r.value, ast.Constant) and r.value.value is None):
                none = True
            else:
                iv = join(iv, self.expr(r.value, fi))
        cfg = self.ctx.cfg(fi)
        # falling off the end returns None
        for pid in cfg.preds(cfg.exit.id):
            if cfg.nodes[pid].kind != "return":
                none = True
        self._busy.discard(fi.qualname)
        res = (iv if iv is not None else None, none)
        self._ret[fi.qualname] = res
        return res

    def expr(self, e, fi, depth=0):
        if depth > 8:
            return TOP
        if isinstance(e, ast.Constant):
            if isinstance(e.value, bool):
                return (int(e.value), int(e.value))
            if isinstance(e.value, (int, float)):
                return (e.value, e.value)
            return TOP
        if isinstance(e, ast.UnaryOp) and isinstance(e.op, ast.USub):
            lo, hi = self.expr(e.operand, fi, depth + 1)
            return (-hi, -lo)
        if isinstance(e, ast.BinOp) and isinstance(e.op, (ast.Add, ast.Sub)):
            a = self.expr(e.left, fi, depth + 1)
            b = self.expr(e.right, fi, depth + 1)
            if isinstance(e.op, ast.Add):
                return (a[0] + b[0], a[1] + b[1])
            return (a[0] - b[1], a[1] - b[0])
        if isinstance(e, ast.IfExp):
            return join(self.expr(e.body, fi, depth + 1), self.expr(e.orelse, fi, depth + 1))
        if isinstance(e, ast.Call):
            f = e.func
            if isinstance(f, ast.Name):
                if f.id == "min" and e.args:
                    ivs = [self.expr(a, fi, depth + 1) for a in e.args]
                    return (min(i[0] for i in ivs), min(i[1] for i in ivs))
                if f.id == "max" and e.args:
                    ivs = [self.expr(a, fi, depth + 1) for a in e.args]
                    return (max(i[0] for i in ivs), max(i[1] for i in ivs))
                if f.id == "int" and e.args:
                    return self.expr(e.args[0], fi, depth + 1)
                if f.id == "len":
                    return (0, INF)
                if f.id == "bool":
                    return (0, 1)
            cs = self.ctx.cg.site_for(fi, e)
            if cs.targets and cs.kind not in ("ctor",):
                iv = None
                for t in cs.targets:
                    r, none = self.returns(t)
                    if r is None and not none:
                        return TOP
                    if r is not None:
                        iv = join(iv, r)
                    if none and r is None:
                        iv = join(iv, TOP) if False else iv
                return iv if iv is not None else TOP
            return TOP
        if isinstance(e, ast.Name):
            iv = None
            found = False
            for n in walk_no_nested(fi.node):
                if isinstance(n, ast.Assign) and any(isinstance(t, ast.Name) and t.id == e.id for t in n.targets):
                    found = True
                    iv = join(iv, self.expr(n.value, fi, depth + 1))
                elif isinstance(n, (ast.AugAssign, ast.For)) and any(isinstance(t, ast.Name) and t.id == e.id for t in walk_no_nested(n.target)):
                    return TOP
            if found and e.id not in fi.params:
                return iv
            return TOP
        if isinstance(e, ast.Attribute):
            # property of the package with a known return interval
            t = self.ctx.typer.expr_type(e.value, fi)
            iv = None
            for c in t.classes:
                m = self.ctx.p.lookup_method(c, e.attr)
                if m is not None and m.is_property:
                    r, none = self.returns(m)
                    if r is None:
                        return TOP
                    iv = join(iv, r)
                else:
                    return TOP
            return iv if iv is not None else TOP
        return TOP
