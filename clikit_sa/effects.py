"""E4: effect / ownership analysis.

A flow-sensitive (per-function, over the CFG) origin analysis with
context-insensitive interprocedural summaries.

Origin tokens (nested tuples):
  ('p', name)          the object passed as parameter ``name`` (incl. 'self')
  ('f', tok, field)    the object stored in ``field`` of object ``tok``
  ('e', tok)           an element of container ``tok``
  ('c', tok)           a fresh *shallow* copy / view of ``tok`` (elements shared)
  ('new', key)         an object created here
  ('g', 'Class.slot')  a class-level / module-level slot
  ('cls', qualname)    a class object
  ('u',)               unknown

A *mutation event* names the token of the object that is changed in place.
Mutations of ('new', ..) / ('c', ..) objects themselves are harmless; their
elements (('e', ('c', t)) == ('e', t)) are not.
"""
import ast

from .loader import ClassInfo, FuncInfo, walk_no_nested, norm, is_self_attr
from .cfg import cfg_of

MUTATORS = {
    "append", "extend", "insert", "pop", "remove", "clear", "sort", "reverse", "update", "setdefault",
    "popitem", "add", "discard", "appendleft", "popleft",
}
ADDERS = {"append", "insert", "add", "appendleft", "extend", "update", "setdefault"}
COPY_FUNCS = {"list", "dict", "set", "tuple", "sorted", "copy", "reversed", "frozenset", "OrderedDict", "iter", "enumerate", "zip", "filter", "map"}
VIEW_METHODS = {"values", "items", "keys", "copy"}
ELEM_METHODS = {"get", "pop", "popitem", "popleft", "__getitem__"}
PURE_FUNCS = {
    "str", "int", "float", "bool", "len", "repr", "format", "min", "max", "sum", "abs", "round", "range", "isinstance",
    "hasattr", "callable", "ord", "chr", "any", "all", "type", "id", "print", "issubclass", "divmod",
}
STR_METHODS = {
    "format", "join", "split", "strip", "lstrip", "rstrip", "replace", "lower", "upper", "title", "startswith",
    "endswith", "find", "count", "index", "ljust", "rjust", "isspace", "isalpha", "encode", "decode", "splitlines",
    "group", "match", "search", "sub", "isdigit", "center", "zfill", "rsplit",
}
MAX_DEPTH = 5
U = ("u",)


def tok_depth(t):
    d = 0
    while isinstance(t, tuple) and t and t[0] in ("f", "e", "c"):
        d += 1
        t = t[1]
    return d


def root(t):
    while isinstance(t, tuple) and t and t[0] in ("f", "e", "c"):
        t = t[1]
    return t


def norm_tok(t):
    """('e', ('c', x)) -> ('e', x); ('f', ('c', x), a) -> ('f', x, a); depth cap."""
    if not isinstance(t, tuple) or not t:
        return t
    if t[0] == "e":
        inner = norm_tok(t[1])
        if inner[0] == "c":
            inner = inner[1]
        r = ("e", inner)
    elif t[0] == "f":
        inner = norm_tok(t[1])
        if inner[0] == "c":
            inner = inner[1]
        r = ("f", inner, t[2])
    elif t[0] == "c":
        inner = norm_tok(t[1])
        if inner[0] == "c":
            return inner
        r = ("c", inner)
    else:
        return t
    if tok_depth(r) > MAX_DEPTH:
        return U
    return r


def is_fresh(t):
    """The object itself is local to the creating function."""
    return isinstance(t, tuple) and t and t[0] in ("new", "c")


def path_fields(t):
    """Field names along the token, outermost first."""
    out = []
    while isinstance(t, tuple) and t and t[0] in ("f", "e", "c"):
        if t[0] == "f":
            out.append(t[2])
        t = t[1]
    return out


def show(t):
    if not isinstance(t, tuple):
        return str(t)
    k = t[0]
    if k == "p":
        return t[1]
    if k == "f":
        return "%s.%s" % (show(t[1]), t[2])
    if k == "e":
        return "%s[*]" % show(t[1])
    if k == "c":
        return "copy(%s)" % show(t[1])
    if k == "new":
        return "<new %s>" % (t[1],)
    if k == "g":
        return t[1]
    if k == "cls":
        return "class %s" % t[1].split(".")[-1]
    return "?"


def subst(t, mapping):
    """Replace ('p', name) roots by sets of tokens: returns a set."""
    if not isinstance(t, tuple) or not t:
        return {t}
    k = t[0]
    if k == "p":
        return set(mapping.get(t[1], {U}))
    if k in ("e", "c"):
        return {norm_tok((k, x)) for x in subst(t[1], mapping)}
    if k == "f":
        return {norm_tok(("f", x, t[2])) for x in subst(t[1], mapping)}
    return {t}


class Event(object):
    __slots__ = ("token", "node", "kind", "fi", "via")

    def __init__(self, token, node, kind, fi, via=()):
        self.token = token
        self.node = node
        self.kind = kind
        self.fi = fi
        self.via = via  # chain of (callee FuncInfo, event) for interprocedural events

    def chain(self):
        out = [self.fi.short]
        v = self.via
        while v:
            out.append(v[0].short)
            v = v[1].via if len(v) > 1 and v[1] is not None else ()
        return " -> ".join(out)

    def origin_event(self):
        e = self
        while e.via and len(e.via) > 1 and e.via[1] is not None:
            e = e.via[1]
        return e


class Summary(object):
    def __init__(self):
        self.mutations = {}  # token (rooted at params / g) -> Event (first seen)
        self.returns = set()  # tokens
        self.stores = set()  # (base token, field or '*', value token) rooted at params
        self.gstores = {}  # slot -> node


class State(object):
    __slots__ = ("vars", "heap")

    def __init__(self, vars=None, heap=None):
        self.vars = vars or {}
        self.heap = heap or {}

    def copy(self):
        return State(dict(self.vars), dict(self.heap))

    def join(self, other):
        changed = False
        for k, v in other.vars.items():
            old = self.vars.get(k)
            if old is None:
                self.vars[k] = v
                changed = True
            elif not v <= old:
                self.vars[k] = old | v
                changed = True
        for k, v in other.heap.items():
            old = self.heap.get(k)
            if old is None:
                self.heap[k] = v
                changed = True
            elif not v <= old:
                self.heap[k] = old | v
                changed = True
        return changed


class Effects(object):
    def __init__(self, program, cg):
        self.p = program
        self.cg = cg
        self.summaries = {}
        self.events = {}  # qualname -> [Event]
        self._getter_cache = {}
        self._compute()

    # --------------------------------------------------------------- driver
    def _compute(self):
        funcs = self.p.all_functions()
        for f in funcs:
            self.summaries[f.qualname] = Summary()
        for _round in range(6):
            changed = False
            for f in funcs:
                if self._analyse(f):
                    changed = True
            if not changed:
                break

    def summary(self, fi):
        return self.summaries.get(fi.qualname)

    # ------------------------------------------------------------- analysis
    def _analyse(self, fi):
        cfg = cfg_of(fi, self.p)
        summ = self.summaries[fi.qualname]
        before = (len(summ.mutations), len(summ.returns), len(summ.stores), len(summ.gstores))
        events = []
        init = State()
        for prm in list(fi.params) + list(fi.kwonly) + ([fi.vararg] if fi.vararg else []) + ([fi.kwarg] if fi.kwarg else []):
            init.vars[prm] = frozenset([("p", prm)])
        if fi.parent is not None:
            # closure variables: treat as parameters of the same name of the parent
            pass
        self._cur_fi, self._cur_events, self._cur_seen = fi, events, None
        states = {cfg.entry.id: init}
        work = [cfg.entry.id]
        order = 0
        seen_events = set()
        self._cur_seen = seen_events
        iters = 0
        while work and iters < 4000:
            iters += 1
            nid = work.pop()
            st = states[nid].copy()
            node = cfg.nodes[nid]
            self._transfer(fi, node, st, events, seen_events, summ)
            for succ, kind in cfg.succ[nid]:
                if succ in states:
                    if states[succ].join(st):
                        if succ not in work:
                            work.append(succ)
                else:
                    states[succ] = st.copy()
                    work.append(succ)
        self.events[fi.qualname] = events
        # exports
        for ev in events:
            t = ev.token
            r = root(t)
            if r[0] in ("p", "g") and not is_fresh(t):
                if t not in summ.mutations:
                    summ.mutations[t] = ev
        # heap stores rooted at params
        final = states.get(cfg.exit.id)
        allstates = [s for s in states.values()]
        for s in allstates:
            for (base, field), vals in s.heap.items():
                if root(base)[0] == "p":
                    for v in vals:
                        if root(v)[0] in ("p", "g") or v[0] in ("e", "f"):
                            if root(v)[0] in ("p", "g"):
                                summ.stores.add((base, field, v))
        after = (len(summ.mutations), len(summ.returns), len(summ.stores), len(summ.gstores))
        return after != before

    # -------------------------------------------------------------- origins
    def origins(self, e, st, fi, depth=0):
        if e is None or depth > 10:
            return frozenset([U])
        if isinstance(e, ast.Name):
            if e.id in st.vars:
                return st.vars[e.id]
            r = self.p.resolve_in_func(fi, e.id)
            if isinstance(r, ClassInfo):
                return frozenset([("cls", r.qualname)])
            if isinstance(r, tuple) and r[0] == "const":
                return frozenset([("g", r[2].name + "." + e.id)])
            if fi.parent is not None:
                return frozenset([("p", e.id)])  # closure variable of the enclosing function
            return frozenset([U])
        if isinstance(e, ast.Constant) or isinstance(e, ast.JoinedStr):
            return frozenset([("new", "const")])
        if isinstance(e, (ast.List, ast.Tuple, ast.Set)):
            tok = ("new", "%s:%d:%d" % (type(e).__name__, e.lineno, e.col_offset))
            vals = set()
            for x in e.elts:
                vals |= self.origins(x, st, fi, depth + 1)
            if vals:
                st.heap[(tok, "*")] = frozenset(vals) | st.heap.get((tok, "*"), frozenset())
            return frozenset([tok])
        if isinstance(e, (ast.Dict, ast.ListComp, ast.SetComp, ast.DictComp, ast.GeneratorExp)):
            tok = ("new", "%s:%d:%d" % (type(e).__name__, e.lineno, e.col_offset))
            if isinstance(e, (ast.ListComp, ast.SetComp, ast.GeneratorExp)):
                sub = st
                for g in e.generators:
                    self._bind_target(g.target, self._elems(self.origins(g.iter, st, fi, depth + 1), st), st)
                vals = self.origins(e.elt, st, fi, depth + 1)
                st.heap[(tok, "*")] = frozenset(vals) | st.heap.get((tok, "*"), frozenset())
            elif isinstance(e, ast.Dict):
                vals = set()
                for x in e.values:
                    if x is not None:
                        vals |= self.origins(x, st, fi, depth + 1)
                if vals:
                    st.heap[(tok, "*")] = frozenset(vals)
            return frozenset([tok])
        if isinstance(e, ast.Attribute):
            base = self.origins(e.value, st, fi, depth + 1)
            return self._field(base, e.attr, st, fi, e)
        if isinstance(e, ast.Subscript):
            base = self.origins(e.value, st, fi, depth + 1)
            if isinstance(e.slice, ast.Slice):
                return frozenset(norm_tok(("c", b)) for b in base)
            return self._elems(base, st)
        if isinstance(e, ast.Call):
            return self._call(e, st, fi, depth)
        if isinstance(e, ast.BoolOp):
            out = set()
            for v in e.values:
                out |= self.origins(v, st, fi, depth + 1)
            return frozenset(out)
        if isinstance(e, ast.IfExp):
            return self.origins(e.body, st, fi, depth + 1) | self.origins(e.orelse, st, fi, depth + 1)
        if isinstance(e, ast.BinOp):
            # list + list, str % x ...: a new object (elements shared, ignored)
            l = self.origins(e.left, st, fi, depth + 1)
            r = self.origins(e.right, st, fi, depth + 1)
            out = set()
            for x in l | r:
                if x[0] != "new" and x != U:
                    out.add(norm_tok(("c", x)))
            return frozenset(out) or frozenset([("new", "binop")])
        if isinstance(e, (ast.Compare, ast.UnaryOp)):
            return frozenset([("new", "const")])
        if isinstance(e, ast.Starred):
            return self.origins(e.value, st, fi, depth + 1)
        if isinstance(e, ast.NamedExpr):
            v = self.origins(e.value, st, fi, depth + 1)
            self._bind_target(e.target, v, st)
            return v
        if isinstance(e, ast.Lambda):
            return frozenset([("new", "lambda")])
        if isinstance(e, (ast.Yield, ast.Await)):
            return frozenset([U])
        return frozenset([U])

    def _elems(self, base, st):
        out = set()
        for b in base:
            if b == U:
                out.add(U)
                continue
            bb = b[1] if b[0] == "c" else b
            h = st.heap.get((bb, "*"))
            if h:
                out |= h
                if bb[0] == "new":
                    continue
            if bb[0] == "new" and bb[1] == "const":
                out.add(("new", "const"))
                continue
            out.add(norm_tok(("e", bb)))
        return frozenset(out)

    def _field(self, base, attr, st, fi, node=None):
        out = set()
        typer = self.cg.typer
        for b in base:
            if b == U:
                out.add(U)
                continue
            if b[0] == "cls":
                ci = self.p.classes.get(b[1])
                if ci is not None:
                    owner, val = self.p.lookup_attr(ci, attr)
                    if owner is not None:
                        out.add(("g", owner.qualname + "." + attr))
                        continue
                    m = self.p.lookup_method(ci, attr)
                    if m is not None:
                        out.add(("new", "boundmethod"))
                        continue
                out.add(("g", b[1] + "." + attr))
                continue
            bb = b[1] if b[0] == "c" else b
            h = st.heap.get((bb, attr))
            if h is not None:
                out |= h
                continue
            # class-level slot read through an instance / cls parameter
            if bb == ("p", "cls") and fi.cls is not None:
                owner, val = self.p.lookup_attr(fi.cls, attr)
                if owner is not None:
                    out.add(("g", owner.qualname + "." + attr))
                    continue
            if bb == ("p", "self") and fi.cls is not None:
                owner, val = self.p.lookup_attr(fi.cls, attr)
                m = self.p.lookup_method(fi.cls, attr)
                if owner is not None and m is None and not self._assigned_on_instance(fi.cls, attr):
                    out.add(("g", owner.qualname + "." + attr))
                    continue
            # property getters: substitute the getter's return summary
            got = False
            if node is not None:
                bt = typer.expr_type(node.value, fi)
                for c in bt.classes:
                    for m in self.p.implementations(c, attr):
                        if m.is_property:
                            got = True
                            s = self.summaries.get(m.qualname)
                            if s is not None and s.returns:
                                for rt in s.returns:
                                    out |= subst(rt, {"self": {bb}})
                            else:
                                out.add(norm_tok(("f", bb, attr)))
                        elif not m.is_property:
                            got = True
                            out.add(("new", "boundmethod"))
            if not got:
                out.add(norm_tok(("f", bb, attr)))
        return frozenset(out)

    def _assigned_on_instance(self, cls, attr):
        key = (cls.qualname, attr)
        if key in self._getter_cache:
            return self._getter_cache[key]
        res = False
        for c in list(cls.mro) + self.p.subclasses(cls, strict=True):
            if not isinstance(c, ClassInfo):
                continue
            for m in c.methods.values():
                if m.is_classmethod:
                    continue
                for n in walk_no_nested(m.node):
                    if isinstance(n, (ast.Assign, ast.AugAssign)):
                        tg = n.targets if isinstance(n, ast.Assign) else [n.target]
                        for t in tg:
                            if is_self_attr(t, attr) and isinstance(t.value, ast.Name) and t.value.id == "self":
                                res = True
        self._getter_cache[key] = res
        return res

    # ---------------------------------------------------------------- calls
    def _call(self, call, st, fi, depth):
        f = call.func
        cid = "%d:%d" % (call.lineno, call.col_offset)
        argo = [self.origins(a, st, fi, depth + 1) for a in call.args]
        kwo = {k.arg: self.origins(k.value, st, fi, depth + 1) for k in call.keywords if k.arg}
        if isinstance(f, ast.Name) and f.id not in st.vars:
            n = f.id
            if n in COPY_FUNCS:
                if not argo:
                    return frozenset([("new", n + ":" + cid)])
                return frozenset(norm_tok(("c", b)) for b in argo[0])
            if n == "deepcopy":
                return frozenset([("new", "deepcopy:" + cid)])
            if n == "next":
                return self._elems(argo[0], st) if argo else frozenset([U])
            if n == "getattr" and len(call.args) >= 2 and isinstance(call.args[1], ast.Constant):
                return self._field(argo[0], call.args[1].value, st, fi)
            if n in PURE_FUNCS:
                return frozenset([("new", "const")])
        if isinstance(f, ast.Attribute):
            a = f.attr
            recv = self.origins(f.value, st, fi, depth + 1)
            typer = self.cg.typer
            rt = typer.expr_type(f.value, fi)
            prim_recv = bool(rt.prims) and not rt.classes and not rt.clsobjs
            unknown_recv = rt.is_empty()
            if (prim_recv or unknown_recv) and a == "setdefault" and call.args and (prim_recv or not self.cg._defined_anywhere(a)):
                # d.setdefault(k, v) returns the element already stored or v itself (which is then stored)
                dflt = argo[1] if len(argo) > 1 else frozenset([("new", "const")])
                out = set(self._elems(recv, st)) | set(dflt)
                for b in recv:
                    if b != U and b[0] != "c":
                        st.heap[(b, "*")] = st.heap.get((b, "*"), frozenset()) | frozenset(dflt)
                return frozenset(out)
            if prim_recv or unknown_recv:
                if a in VIEW_METHODS:
                    return frozenset(norm_tok(("c", b)) for b in recv)
                if a in ELEM_METHODS:
                    return self._elems(recv, st)
                if a in STR_METHODS and (prim_recv or not self.cg._defined_anywhere(a)):
                    return frozenset([("new", "const")])
                if a in MUTATORS and (prim_recv or not self.cg._defined_anywhere(a)):
                    return frozenset([("new", "const")])
        # resolved package callees
        cs = self.cg.site_for(fi, call)
        out = set()
        if cs.kind == "ctor" or (cs.kind == "callback" and isinstance(f, ast.Name) and f.id[:1].isupper()):
            tok = ("new", "%s:%s" % (norm(f), cid))
            for t in cs.targets:
                self._apply_summary(t, call, st, fi, {"self": {tok}}, argo, kwo, bound=True, new_tok=tok)
            return frozenset([tok])
        if cs.targets:
            recv = None
            if isinstance(f, ast.Attribute):
                recv = self.origins(f.value, st, fi, depth + 1)
            for t in cs.targets:
                bound = t.cls is not None and not t.is_staticmethod and cs.kind != "unbound"
                selfmap = {}
                if bound and t.params:
                    selfmap[t.params[0]] = set(recv) if recv is not None else {U}
                    if cs.kind == "super" or (isinstance(f, ast.Attribute) and isinstance(f.value, ast.Call)):
                        selfmap[t.params[0]] = set(st.vars.get("self", st.vars.get("cls", frozenset([U]))))
                out |= self._apply_summary(t, call, st, fi, selfmap, argo, kwo, bound=bound)
            return frozenset(out) or frozenset([("new", "ret:" + cid)])
        if cs.kind == "external":
            return frozenset([("new", "ext:" + cid)])
        return frozenset([U])

    def _apply_summary(self, t, call, st, fi, selfmap, argo, kwo, bound=True, new_tok=None):
        """Map callee summary into the caller: returns the set of returned
        tokens; mutation events are queued on the state."""
        summ = self.summaries.get(t.qualname)
        params = list(t.params)
        mapping = dict(selfmap)
        if bound and params:
            params = params[1:]
        for i, prm in enumerate(params):
            if i < len(argo):
                mapping[prm] = set(argo[i])
        for k, v in kwo.items():
            mapping[k] = set(v)
        if t.vararg and len(argo) > len(params):
            extra = set()
            for a in argo[len(params):]:
                extra |= set(a)
            vt = ("new", "varargs")
            mapping[t.vararg] = {vt}
            st.heap[(vt, "*")] = frozenset(extra)
        for prm in params:
            mapping.setdefault(prm, {("new", "default")})
        out = set()
        if summ is None:
            return {U}
        for mt, ev in list(summ.mutations.items()):
            for tok in subst(mt, mapping):
                self._emit(self._cur_fi, self._cur_events, self._cur_seen, tok, call,
                           "call:" + ev.kind.split(":", 1)[-1] if ev.kind.startswith("call:") else "call:" + ev.kind, via=(t, ev))
        for (base, field, val) in summ.stores:
            for b in subst(base, mapping):
                if b == U:
                    continue
                bb = b[1] if b[0] == "c" else b
                vals = set()
                for v in subst(val, mapping):
                    vals.add(v)
                key = (bb, field)
                st.heap[key] = st.heap.get(key, frozenset()) | frozenset(vals)
        for rt in summ.returns:
            out |= subst(rt, mapping)
        return out

    # ------------------------------------------------------------- transfer
    def _bind_target(self, target, vals, st):
        if isinstance(target, ast.Name):
            st.vars[target.id] = frozenset(vals)
        elif isinstance(target, (ast.Tuple, ast.List)):
            el = self._elems(vals, st)
            for t in target.elts:
                self._bind_target(t, el, st)
        elif isinstance(target, ast.Starred):
            self._bind_target(target.value, vals, st)

    def _emit(self, fi, events, seen, token, node, kind, via=()):
        if token == U:
            return
        key = (token, id(node), kind, via[0].qualname if via else None)
        if key in seen:
            return
        seen.add(key)
        events.append(Event(token, node, kind, fi, via))

    def _transfer(self, fi, node, st, events, seen, summ):
        a = node.ast
        k = node.kind
        if a is None or k in ("T", "F", "loop_body", "loop_exit", "finally", "with_exit", "loop", "except", "entry", "exit", "raise_exit", "def"):
            if k == "except" and a is not None and getattr(a, "name", None):
                st.vars[a.name] = frozenset([("new", "exc")])
            return
        if k == "cond":
            self.origins(a, st, fi)
            self._mutations_in_expr(fi, a, st, events, seen)
            return
        if k == "for":
            it = self.origins(a.iter, st, fi)
            self._mutations_in_expr(fi, a.iter, st, events, seen)
            self._bind_target(a.target, self._elems(it, st), st)
            return
        if k == "with_enter":
            for item in a.items:
                v = self.origins(item.context_expr, st, fi)
                self._mutations_in_expr(fi, item.context_expr, st, events, seen)
                if item.optional_vars is not None:
                    self._bind_target(item.optional_vars, v, st)
            return
        if isinstance(a, ast.Assign):
            v = self.origins(a.value, st, fi)
            self._mutations_in_expr(fi, a.value, st, events, seen)
            for t in a.targets:
                self._assign(fi, t, v, st, events, seen, a, summ)
        elif isinstance(a, ast.AnnAssign):
            if a.value is not None:
                v = self.origins(a.value, st, fi)
                self._mutations_in_expr(fi, a.value, st, events, seen)
                self._assign(fi, a.target, v, st, events, seen, a, summ)
        elif isinstance(a, ast.AugAssign):
            v = self.origins(a.value, st, fi)
            self._mutations_in_expr(fi, a.value, st, events, seen)
            t = a.target
            tt = self.cg.typer.expr_type(t, fi)
            listy = bool(tt.prims & {"list", "dict", "set"}) and not (tt.prims & {"str", "int", "float", "bool"})
            if not listy and isinstance(a.op, ast.Add):
                # `x += [..]` / `x += [..] * n`: the right operand is a list, so x is one and is extended in place
                rv = a.value
                while isinstance(rv, ast.BinOp) and isinstance(rv.op, ast.Mult):
                    rv = rv.left if isinstance(rv.left, (ast.List, ast.ListComp)) else rv.right
                listy = isinstance(rv, (ast.List, ast.ListComp))
            if isinstance(t, ast.Name):
                if listy:
                    for o in st.vars.get(t.id, frozenset()):
                        self._emit(fi, events, seen, o, a, "augassign")
            elif isinstance(t, ast.Attribute):
                base = self.origins(t.value, st, fi)
                if listy:
                    for o in self._field(base, t.attr, st, fi, t):
                        self._emit(fi, events, seen, o, a, "augassign")
                else:
                    for o in base:
                        oo = o[1] if o[0] == "c" else o
                        self._emit(fi, events, seen, o, a, "attr-store:" + t.attr)
                        st.heap.pop((oo, t.attr), None)
            elif isinstance(t, ast.Subscript):
                for o in self.origins(t.value, st, fi):
                    self._emit(fi, events, seen, o, a, "substore")
        elif isinstance(a, ast.Delete):
            for t in a.targets:
                if isinstance(t, ast.Subscript):
                    for o in self.origins(t.value, st, fi):
                        self._emit(fi, events, seen, o, a, "subdel")
                elif isinstance(t, ast.Attribute):
                    for o in self.origins(t.value, st, fi):
                        self._emit(fi, events, seen, o, a, "attr-del:" + t.attr)
                elif isinstance(t, ast.Name):
                    st.vars.pop(t.id, None)
        elif isinstance(a, ast.Return):
            if a.value is not None:
                v = self.origins(a.value, st, fi)
                self._mutations_in_expr(fi, a.value, st, events, seen)
                for o in v:
                    if o != U and not (o[0] == "new" and o[1] == "const"):
                        summ.returns.add(o if root(o)[0] in ("p", "g", "new", "cls") else o)
        elif isinstance(a, ast.Expr):
            self.origins(a.value, st, fi)
            self._mutations_in_expr(fi, a.value, st, events, seen)
        elif isinstance(a, ast.Raise):
            if a.exc is not None:
                self.origins(a.exc, st, fi)
                self._mutations_in_expr(fi, a.exc, st, events, seen)
        else:
            for sub in ast.iter_child_nodes(a):
                if isinstance(sub, ast.expr):
                    self.origins(sub, st, fi)
                    self._mutations_in_expr(fi, sub, st, events, seen)

    def _assign(self, fi, t, v, st, events, seen, stmt, summ):
        if isinstance(t, ast.Name):
            st.vars[t.id] = frozenset(v)
        elif isinstance(t, (ast.Tuple, ast.List)):
            el = self._elems(v, st)
            for x in t.elts:
                self._assign(fi, x, el, st, events, seen, stmt, summ)
        elif isinstance(t, ast.Attribute):
            base = self.origins(t.value, st, fi)
            for o in base:
                if o == U:
                    continue
                if o[0] == "cls" or (o == ("p", "cls")):
                    cq = o[1] if o[0] == "cls" else (fi.cls.qualname if fi.cls else "?")
                    slot = cq + "." + t.attr
                    ci = self.p.classes.get(cq)
                    if ci is not None:
                        owner, _ = self.p.lookup_attr(ci, t.attr)
                        if owner is not None:
                            slot = owner.qualname + "." + t.attr
                    summ.gstores.setdefault(slot, stmt)
                    st.heap[(("g", slot), "__val__")] = frozenset(v)
                    continue
                oo = o[1] if o[0] == "c" else o
                self._emit(fi, events, seen, o, stmt, "attr-store:" + t.attr)
                if len(base) == 1:
                    st.heap[(oo, t.attr)] = frozenset(v)
                else:
                    st.heap[(oo, t.attr)] = st.heap.get((oo, t.attr), frozenset()) | frozenset(v)
        elif isinstance(t, ast.Subscript):
            base = self.origins(t.value, st, fi)
            for o in base:
                if o == U:
                    continue
                self._emit(fi, events, seen, o, stmt, "substore")
                oo = o[1] if o[0] == "c" and False else o
                if o[0] != "c":
                    st.heap[(oo, "*")] = st.heap.get((oo, "*"), frozenset()) | frozenset(v)
        elif isinstance(t, ast.Starred):
            self._assign(fi, t.value, v, st, events, seen, stmt, summ)

    def _mutations_in_expr(self, fi, expr, st, events, seen):
        """Mutator method calls on non-package receivers (list/dict/set methods)."""
        for c in walk_no_nested(expr):
            if not isinstance(c, ast.Call) or not isinstance(c.func, ast.Attribute):
                continue
            a = c.func.attr
            if a not in MUTATORS:
                continue
            cs = self.cg.site_for(fi, c)
            if cs.targets:
                continue  # a package method of that name: handled through its summary
            rt = self.cg.typer.expr_type(c.func.value, fi)
            if rt.classes and not rt.prims:
                continue
            if "str" in rt.prims and not (rt.prims & {"list", "dict", "set"}):
                continue
            recv = self.origins(c.func.value, st, fi)
            for o in recv:
                self._emit(fi, events, seen, o, c, "mutcall:" + a)
                if a in ADDERS and c.args and o != U and o[0] != "c":
                    vals = self.origins(c.args[-1], st, fi)
                    if a in ("extend", "update"):
                        vals = self._elems(vals, st)
                    st.heap[(o, "*")] = st.heap.get((o, "*"), frozenset()) | frozenset(vals)

    # -------------------------------------------------------------- queries
    def events_in(self, fi):
        return self.events.get(fi.qualname, [])

    def mutations_rooted_at(self, fi, param):
        """Events in ``fi`` (own and via callees) that change an object reachable
        from parameter ``param`` (not the fresh copies of it)."""
        out = []
        for ev in self.events_in(fi):
            t = ev.token
            if root(t) == ("p", param) and not is_fresh(t):
                out.append(ev)
        return out
