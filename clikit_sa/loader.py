"""E1: loader / resolver.

Parses every module of a package from the working tree (or from an in-memory
overlay) and builds module / class / function tables, import resolution
(including package ``__init__`` re-exports), MRO and type-comment signatures.

Nothing here imports or executes the analysed code.
"""
import ast
import hashlib
import os
import re
import sys


REPO = os.environ.get("CLIKIT_SA_REPO", "/repo")
PKG = "clikit"


class AnalysisError(Exception):
    """The analysis itself cannot run (anchor vanished, unresolved callee...)."""


class Module(object):
    def __init__(self, name, path, source, is_pkg):
        self.name = name
        self.path = path  # path relative to repo root
        self.source = source
        self.is_pkg = is_pkg
        self.tree = ast.parse(source, filename=path, type_comments=True)
        self.imports = {}  # local name -> (module name, attr or None)
        self.classes = {}
        self.functions = {}
        self.assigns = {}  # module-level name -> value node
        self.lines = source.split("\n")
        for node in ast.walk(self.tree):
            for child in ast.iter_child_nodes(node):
                child._parent = node
        self.tree._parent = None

    def line(self, lineno):
        if 1 <= lineno <= len(self.lines):
            return self.lines[lineno - 1].strip()
        return ""


class ClassInfo(object):
    def __init__(self, module, node):
        self.module = module
        self.node = node
        self.name = node.name
        self.qualname = module.name + "." + node.name
        self.base_exprs = node.bases
        self.bases = []  # resolved ClassInfo or str (external)
        self.methods = {}
        self.attrs = {}  # class-level name -> value node
        self.mro = None

    def __repr__(self):
        return "<class %s>" % self.qualname


class FuncInfo(object):
    def __init__(self, module, node, cls=None, parent=None):
        self.module = module
        self.node = node
        self.cls = cls
        self.parent = parent  # enclosing FuncInfo for nested defs
        self.name = node.name
        if cls is not None:
            self.qualname = cls.qualname + "." + node.name
        elif parent is not None:
            self.qualname = parent.qualname + ".<locals>." + node.name
        else:
            self.qualname = module.name + "." + node.name
        decos = []
        for d in node.decorator_list:
            if isinstance(d, ast.Name):
                decos.append(d.id)
            elif isinstance(d, ast.Attribute):
                decos.append(d.attr)
        self.decorators = decos
        self.is_property = "property" in decos
        self.is_classmethod = "classmethod" in decos
        self.is_staticmethod = "staticmethod" in decos
        self.is_contextmanager = "contextmanager" in decos
        a = node.args
        self.params = [x.arg for x in a.posonlyargs + a.args]
        self.vararg = a.vararg.arg if a.vararg else None
        self.kwonly = [x.arg for x in a.kwonlyargs]
        self.kwarg = a.kwarg.arg if a.kwarg else None
        self.defaults = {}
        pos = a.posonlyargs + a.args
        for p, d in zip(pos[len(pos) - len(a.defaults):], a.defaults):
            self.defaults[p.arg] = d
        for p, d in zip(a.kwonlyargs, a.kw_defaults):
            if d is not None:
                self.defaults[p.arg] = d
        self.arg_types = {}  # param -> type expr (ast) from type comment
        self.ret_type = None
        self._parse_type_comment()

    @property
    def short(self):
        if self.cls is not None:
            return self.cls.name + "." + self.name
        return self.name

    def _parse_type_comment(self):
        tc = getattr(self.node, "type_comment", None)
        if not tc:
            return
        try:
            ft = ast.parse(tc, mode="func_type")
        except SyntaxError:
            # tolerate "(A, B)" without "-> R"
            m = re.match(r"^\s*(\(.*\))\s*$", tc)
            if not m:
                return
            try:
                ft = ast.parse(m.group(1) + " -> None", mode="func_type")
            except SyntaxError:
                return
            ft.returns = None
        params = list(self.params)
        if self.cls is not None and not self.is_staticmethod and params:
            params = params[1:]
        if self.vararg:
            params = params + [self.vararg]
        argtypes = ft.argtypes
        if len(argtypes) == 1 and isinstance(argtypes[0], ast.Constant) and argtypes[0].value is Ellipsis:
            argtypes = []
        for p, t in zip(params, argtypes):
            self.arg_types[p] = t
        self.ret_type = ft.returns

    def __repr__(self):
        return "<func %s>" % self.qualname

    @property
    def lineno(self):
        return self.node.lineno


class Program(object):
    """All modules of one package, with resolution helpers."""

    def __init__(self, repo=None, pkg=PKG, overlay=None, src_dir="src"):
        self.repo = repo or REPO
        self.pkg = pkg
        self.src_root = os.path.join(self.repo, src_dir)
        self.modules = {}
        self.classes = {}  # qualname -> ClassInfo
        self.functions = {}  # qualname -> FuncInfo
        self.overlay = overlay or {}
        self._load()
        self._index()
        self._resolve_bases()
        self._subclasses = None

    # ------------------------------------------------------------------ load
    def _load(self):
        root = os.path.join(self.src_root, self.pkg)
        if not os.path.isdir(root):
            raise AnalysisError("package directory missing: %s" % root)
        for dirpath, dirnames, filenames in os.walk(root):
            dirnames.sort()
            dirnames[:] = [d for d in dirnames if d != "__pycache__"]
            for fn in sorted(filenames):
                if not fn.endswith(".py"):
                    continue
                full = os.path.join(dirpath, fn)
                rel = os.path.relpath(full, self.repo)
                modrel = os.path.relpath(full, self.src_root)[:-3]
                parts = modrel.split(os.sep)
                is_pkg = parts[-1] == "__init__"
                if is_pkg:
                    parts = parts[:-1]
                name = ".".join(parts)
                if rel in self.overlay:
                    source = self.overlay[rel]
                else:
                    with open(full, "r", encoding="utf-8") as f:
                        source = f.read()
                try:
                    self.modules[name] = Module(name, rel, source, is_pkg)
                except SyntaxError as e:
                    raise AnalysisError("cannot parse %s: %s" % (rel, e))

    def digest(self, module_names=None):
        h = hashlib.sha256()
        for name in sorted(module_names or self.modules):
            m = self.modules.get(name)
            if m is None:
                continue
            h.update(name.encode())
            h.update(m.source.encode("utf-8"))
        return h.hexdigest()[:16]

    # ----------------------------------------------------------------- index
    def _index(self):
        for mod in self.modules.values():
            self._index_body(mod, mod.tree.body)

    def _index_body(self, mod, body):
        for node in body:
            if isinstance(node, ast.ClassDef):
                ci = ClassInfo(mod, node)
                mod.classes[node.name] = ci
                self.classes[ci.qualname] = ci
                for sub in node.body:
                    if isinstance(sub, (ast.FunctionDef, ast.AsyncFunctionDef)):
                        fi = FuncInfo(mod, sub, cls=ci)
                        # property setter etc: keep the first (getter)
                        if sub.name not in ci.methods:
                            ci.methods[sub.name] = fi
                            self.functions[fi.qualname] = fi
                        self._index_nested(mod, fi)
                    elif isinstance(sub, ast.Assign):
                        for t in sub.targets:
                            if isinstance(t, ast.Name):
                                ci.attrs[t.id] = sub.value
                    elif isinstance(sub, ast.AnnAssign) and isinstance(sub.target, ast.Name) and sub.value is not None:
                        ci.attrs[sub.target.id] = sub.value
            elif isinstance(node, (ast.FunctionDef, ast.AsyncFunctionDef)):
                fi = FuncInfo(mod, node)
                mod.functions[node.name] = fi
                self.functions[fi.qualname] = fi
                self._index_nested(mod, fi)
            elif isinstance(node, ast.Import):
                for a in node.names:
                    local = a.asname or a.name.split(".")[0]
                    mod.imports[local] = (a.name if a.asname else a.name.split(".")[0], None)
            elif isinstance(node, ast.ImportFrom):
                self._index_importfrom(mod, node)
            elif isinstance(node, ast.Assign):
                for t in node.targets:
                    if isinstance(t, ast.Name):
                        mod.assigns[t.id] = node.value
            elif isinstance(node, (ast.If, ast.Try)):
                # TYPE_CHECKING blocks, try/except import fallbacks
                for sub_body in self._sub_bodies(node):
                    self._index_body(mod, sub_body)

    @staticmethod
    def _sub_bodies(node):
        if isinstance(node, ast.If):
            return [node.body, node.orelse]
        out = [node.body, node.orelse, node.finalbody]
        for h in node.handlers:
            out.append(h.body)
        return out

    def _index_importfrom(self, mod, node):
        if node.level:
            base = mod.name.split(".")
            if not mod.is_pkg:
                base = base[:-1]
            if node.level > 1:
                base = base[: len(base) - (node.level - 1)]
            target = ".".join(base + ([node.module] if node.module else []))
        else:
            target = node.module
        for a in node.names:
            local = a.asname or a.name
            mod.imports.setdefault(local, (target, a.name))

    def _index_nested(self, mod, fi):
        """Register nested function definitions (closures) and function-level imports."""
        fi.nested = {}
        fi.local_imports = {}
        for node in ast.walk(fi.node):
            if node is fi.node:
                continue
            if isinstance(node, (ast.FunctionDef, ast.AsyncFunctionDef)):
                # only direct nesting level matters here; deeper levels get
                # registered when the nested function is indexed itself
                if self._enclosing_def(node) is fi.node:
                    sub = FuncInfo(mod, node, parent=fi)
                    fi.nested[node.name] = sub
                    self.functions[sub.qualname] = sub
                    self._index_nested(mod, sub)
            elif isinstance(node, ast.Lambda) and self._enclosing_def(node) is fi.node:
                # a lambda is the function `def <lambda>(args): return <body>` nested here: calls made in its body happen when
                # whoever receives it calls it (the call graph follows it like a closure handed on by name)
                fd = ast.FunctionDef(name="<lambda@%d:%d>" % (node.lineno, node.col_offset), args=node.args, body=[ast.Return(value=node.body)],
                                     decorator_list=[], returns=None, type_comment=None)
                fd.type_params = []
                ast.copy_location(fd, node)
                ast.copy_location(fd.body[0], node.body)
                fd.end_lineno = fd.body[0].end_lineno = getattr(node, "end_lineno", node.lineno)
                fd.end_col_offset = fd.body[0].end_col_offset = getattr(node, "end_col_offset", 0)
                fd._parent = getattr(node, "_parent", None)
                fd.body[0]._parent = fd
                fd.is_lambda = True
                sub = FuncInfo(mod, fd, parent=fi)
                sub.is_lambda = True
                fi.nested[fd.name] = sub
                node._fi = sub
                self.functions[sub.qualname] = sub
                sub.nested, sub.local_imports = {}, {}
            elif isinstance(node, ast.ImportFrom):
                tmp = Module.__new__(Module)
                tmp.name, tmp.is_pkg, tmp.imports = mod.name, mod.is_pkg, {}
                self._index_importfrom(tmp, node)
                fi.local_imports.update(tmp.imports)

    @staticmethod
    def _enclosing_def(node):
        p = getattr(node, "_parent", None)
        while p is not None and not isinstance(p, (ast.FunctionDef, ast.AsyncFunctionDef, ast.Lambda)):
            p = getattr(p, "_parent", None)
        return p

    # ------------------------------------------------------------ resolution
    def resolve_global(self, modname, name, _seen=None):
        """Resolve ``name`` visible at module level of ``modname``.

        Returns ClassInfo / FuncInfo / Module / ('const', node, Module) /
        ('external', dotted) / None.
        """
        _seen = _seen or set()
        key = (modname, name)
        if key in _seen:
            return None
        _seen.add(key)
        mod = self.modules.get(modname)
        if mod is None:
            return ("external", modname + "." + name)
        if name in mod.classes:
            return mod.classes[name]
        if name in mod.functions:
            return mod.functions[name]
        if name in mod.imports:
            tmod, attr = mod.imports[name]
            if attr is None:
                return self.modules.get(tmod) or ("external", tmod)
            sub = tmod + "." + attr
            if tmod in self.modules:
                r = self.resolve_global(tmod, attr, _seen)
                if r is not None:
                    return r
            if sub in self.modules:
                return self.modules[sub]
            if tmod not in self.modules:
                return ("external", sub)
            return None
        if name in mod.assigns:
            return ("const", mod.assigns[name], mod)
        return None

    def resolve_in_func(self, fi, name):
        f = fi
        while f is not None:
            li = getattr(f, "local_imports", {})
            if name in li:
                tmod, attr = li[name]
                if tmod in self.modules:
                    r = self.resolve_global(tmod, attr)
                    if r is not None:
                        return r
                return ("external", tmod + "." + (attr or ""))
            if name in getattr(f, "nested", {}):
                return f.nested[name]
            f = f.parent
        return self.resolve_global(fi.module.name, name)

    def resolve_class_expr(self, mod, expr, fi=None):
        """Resolve an expression naming a class (Name or dotted Attribute)."""
        if isinstance(expr, ast.Name):
            r = self.resolve_in_func(fi, expr.id) if fi is not None else self.resolve_global(mod.name, expr.id)
            return r
        if isinstance(expr, ast.Attribute):
            base = self.resolve_class_expr(mod, expr.value, fi)
            if isinstance(base, Module):
                return self.resolve_global(base.name, expr.attr)
            if isinstance(base, tuple) and base[0] == "external":
                return ("external", base[1] + "." + expr.attr)
        return None

    def _resolve_bases(self):
        for ci in self.classes.values():
            for b in ci.base_exprs:
                r = self.resolve_class_expr(ci.module, b)
                if isinstance(r, ClassInfo):
                    ci.bases.append(r)
                elif isinstance(r, tuple) and r[0] == "external":
                    ci.bases.append(r[1])
                elif isinstance(b, ast.Name):
                    ci.bases.append(b.id)  # builtin
                else:
                    ci.bases.append(ast.dump(b))
        for ci in self.classes.values():
            ci.mro = self._c3(ci)

    def _c3(self, ci, _depth=0):
        if _depth > 30:
            return [ci]
        seqs = []
        for b in ci.bases:
            if isinstance(b, ClassInfo):
                seqs.append(list(self._c3(b, _depth + 1)))
            else:
                seqs.append([b])
        seqs.append([b for b in ci.bases])
        res = [ci]
        seqs = [s for s in seqs if s]
        while seqs:
            cand = None
            for s in seqs:
                c = s[0]
                if not any(c in o[1:] for o in seqs):
                    cand = c
                    break
            if cand is None:
                cand = seqs[0][0]
            res.append(cand)
            seqs = [[x for x in s if x is not cand and x != cand] for s in seqs]
            seqs = [s for s in seqs if s]
        return res

    # ---------------------------------------------------------------- queries
    def cls(self, name):
        """Class by qualname or by unique short name."""
        if name in self.classes:
            return self.classes[name]
        hits = [c for c in self.classes.values() if c.name == name]
        if len(hits) == 1:
            return hits[0]
        if not hits:
            raise AnalysisError("anchor class not found: %s" % name)
        raise AnalysisError("ambiguous class name: %s" % name)

    def try_cls(self, name):
        try:
            return self.cls(name)
        except AnalysisError:
            return None

    def func(self, name):
        """Function by 'Class.method', 'module.func' or full qualname."""
        if name in self.functions:
            return self.functions[name]
        if "." in name:
            head, meth = name.rsplit(".", 1)
            ci = self.try_cls(head)
            if ci is not None:
                f = self.lookup_method(ci, meth)
                if f is not None:
                    return f
            hits = [f for q, f in self.functions.items() if q.endswith("." + name)]
            if len(hits) == 1:
                return hits[0]
        else:
            hits = [f for f in self.functions.values() if f.cls is None and f.parent is None and f.name == name]
            if len(hits) == 1:
                return hits[0]
        raise AnalysisError("anchor function not found: %s" % name)

    def try_func(self, name):
        try:
            return self.func(name)
        except AnalysisError:
            return None

    def own_method(self, cls, name):
        return cls.methods.get(name)

    def lookup_method(self, cls, name):
        for c in cls.mro:
            if isinstance(c, ClassInfo) and name in c.methods:
                return c.methods[name]
        return None

    def lookup_attr(self, cls, name):
        for c in cls.mro:
            if isinstance(c, ClassInfo) and name in c.attrs:
                return c, c.attrs[name]
        return None, None

    def is_subclass(self, cls, base):
        if isinstance(base, ClassInfo):
            return base in cls.mro
        return any((not isinstance(c, ClassInfo)) and (c == base or c.endswith("." + base)) for c in cls.mro)

    def subclasses(self, base, strict=False):
        out = []
        for c in self.classes.values():
            if base in c.mro and not (strict and c is base):
                out.append(c)
        return sorted(out, key=lambda c: c.qualname)

    def implementations(self, cls, name):
        """All FuncInfo that a call ``x.name()`` may dispatch to for x: cls."""
        out = []
        seen = set()
        base = self.lookup_method(cls, name)
        if base is not None:
            out.append(base)
            seen.add(base.qualname)
        for sub in self.subclasses(cls, strict=True):
            f = sub.methods.get(name)
            if f is not None and f.qualname not in seen:
                seen.add(f.qualname)
                out.append(f)
        return out

    def builtin_exception_bases(self, cls):
        return [c for c in cls.mro if not isinstance(c, ClassInfo)]

    def all_functions(self):
        return sorted(self.functions.values(), key=lambda f: (f.module.path, f.node.lineno))

    def methods_of(self, cls, inherited=True):
        out = {}
        seq = cls.mro if inherited else [cls]
        for c in reversed([c for c in seq if isinstance(c, ClassInfo)]):
            out.update(c.methods)
        return out

    def loc(self, fi_or_mod, node):
        mod = fi_or_mod.module if isinstance(fi_or_mod, (FuncInfo, ClassInfo)) else fi_or_mod
        return "%s:%d" % (mod.path, getattr(node, "lineno", 0))


# --------------------------------------------------------------- dependencies
def site_packages_dir():
    for p in ("/venv/lib/python3.12/site-packages",):
        if os.path.isdir(p):
            return p
    for p in sys.path:
        if p.endswith("site-packages") and os.path.isdir(p):
            return p
    return None


def load_dependency_module(relpath):
    """Parse (never import) a module of an installed dependency."""
    sp = site_packages_dir()
    if sp is None:
        raise AnalysisError("site-packages not found")
    full = os.path.join(sp, relpath)
    if not os.path.isfile(full):
        raise AnalysisError("dependency source missing: %s" % relpath)
    with open(full, "r", encoding="utf-8") as f:
        src = f.read()
    tree = ast.parse(src, filename=full)
    for node in ast.walk(tree):
        for child in ast.iter_child_nodes(node):
            child._parent = node
    return tree, src, hashlib.sha256(src.encode()).hexdigest()[:16]


# ------------------------------------------------------------------ ast utils
def unparse(node):
    try:
        return ast.unparse(node)
    except Exception:
        return "<%s>" % type(node).__name__


def norm(node):
    """Normalised text of a construct (used in finding keys; line-free)."""
    return re.sub(r"\s+", " ", unparse(node)).strip()


def parent(node):
    return getattr(node, "_parent", None)


def ancestors(node):
    p = parent(node)
    while p is not None:
        yield p
        p = parent(p)


def enclosing_stmt(node):
    n = node
    while n is not None and not isinstance(n, ast.stmt):
        n = parent(n)
    return n


def walk_no_nested(node):
    """ast.walk that does not descend into nested function / class / lambda bodies."""
    stack = [node]
    first = True
    while stack:
        n = stack.pop()
        if not first and isinstance(n, (ast.FunctionDef, ast.AsyncFunctionDef, ast.ClassDef, ast.Lambda)):
            yield n
            continue
        first = False
        yield n
        stack.extend(reversed(list(ast.iter_child_nodes(n))))


def attr_chain(expr):
    """['self', '_a', 'b'] for self._a.b ; None if not a pure Name/Attribute chain."""
    parts = []
    while isinstance(expr, ast.Attribute):
        parts.append(expr.attr)
        expr = expr.value
    if isinstance(expr, ast.Name):
        parts.append(expr.id)
        return list(reversed(parts))
    return None


def is_self_attr(expr, attr=None):
    return (
        isinstance(expr, ast.Attribute)
        and isinstance(expr.value, ast.Name)
        and expr.value.id in ("self", "cls")
        and (attr is None or expr.attr == attr)
    )


def call_name(call):
    """Simple textual callee name of a Call: 'f' or 'x.m' -> 'm'."""
    f = call.func
    if isinstance(f, ast.Name):
        return f.id
    if isinstance(f, ast.Attribute):
        return f.attr
    return None


def const_value(node, default=None):
    if isinstance(node, ast.Constant):
        return node.value
    return default
